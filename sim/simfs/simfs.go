// Package simfs is the simulated disk: an in-memory vfs.FS that records every
// mutation in an append-only log, knows exactly which bytes and directory
// entries are durable, produces crash images as a pure function of
// (log prefix, survival spec), and injects I/O faults.
//
// The durability guarantees are those of vfs.MemFS (the crash model the
// upstream tests accept): file data is durable after File.Sync/SyncData,
// directory entries after a Sync of the directory handle; SyncTo promises
// nothing. Unlike MemFS nothing here iterates a Go map while drawing from a
// PRNG, so images and listings replay exactly.
package simfs

import (
	"fmt"
	"io"
	"os"
	"path"
	"sort"
	"strings"
	"sync"
	"syscall"
	"time"

	"github.com/cockroachdb/errors"
	"github.com/cockroachdb/errors/oserror"
	"github.com/cockroachdb/pebble/verifsim/simrt"
	"github.com/cockroachdb/pebble/vfs"
)

// OpKind enumerates filesystem operations (mutations are logged).
type OpKind uint8

const (
	OpCreate OpKind = iota
	OpWrite
	OpSync
	OpSyncDir
	OpRename
	OpLink
	OpRemove
	OpRemoveAll
	OpMkdir
	OpReuse
	// non-mutating (never logged, but can fail)
	OpOpen
	OpRead
	OpList
	OpStat
	OpLock
	nOpKinds
)

var opNames = [...]string{"create", "write", "sync", "syncdir", "rename", "link", "remove", "removeall", "mkdir", "reuse", "open", "read", "list", "stat", "lock"}

func (k OpKind) String() string { return opNames[k] }

func (k OpKind) Mutation() bool { return k <= OpReuse }

// Op is one logged mutation.
type Op struct {
	Kind  OpKind
	Path  string
	Path2 string
	Ino   int
	Off   int64
	Data  []byte
	Task  uint64
	Time  time.Duration // fake time since the disk was created
}

func (o Op) String() string {
	switch o.Kind {
	case OpWrite:
		return fmt.Sprintf("write ino=%d off=%d len=%d (%s)", o.Ino, o.Off, len(o.Data), o.Path)
	case OpSync, OpSyncDir:
		return fmt.Sprintf("%s ino=%d (%s)", o.Kind, o.Ino, o.Path)
	case OpRename, OpLink, OpReuse:
		return fmt.Sprintf("%s %s -> %s", o.Kind, o.Path, o.Path2)
	}
	return fmt.Sprintf("%s %s", o.Kind, o.Path)
}

type node struct {
	ino            int
	isDir          bool
	data           []byte
	syncedData     []byte
	children       map[string]*node
	syncedChildren map[string]*node
	refs           int // open handles
	modTime        time.Time
}

// Class of a path, for fault targeting and statistics.
type Class uint8

const (
	ClsOther Class = iota
	ClsWAL
	ClsManifest
	ClsTable
	ClsBlob
	ClsMarker
	ClsDir
	ClsOptions
	ClsTemp
	nClasses
)

var classNames = [...]string{"other", "wal", "manifest", "table", "blob", "marker", "dir", "options", "temp"}

func (c Class) String() string { return classNames[c] }

func ClassOf(p string) Class {
	b := path.Base(p)
	switch {
	case strings.HasSuffix(b, ".log"):
		return ClsWAL
	case strings.HasPrefix(b, "MANIFEST"):
		return ClsManifest
	case strings.HasSuffix(b, ".sst"):
		return ClsTable
	case strings.HasSuffix(b, ".blob"):
		return ClsBlob
	case strings.HasPrefix(b, "marker."):
		return ClsMarker
	case strings.HasPrefix(b, "OPTIONS"):
		return ClsOptions
	case strings.HasPrefix(b, "temporary.") || strings.HasSuffix(b, ".dbtmp") || strings.HasSuffix(b, ".tmp"):
		return ClsTemp
	}
	return ClsOther
}

// Fault is one injection rule. It fires on operations whose kind is in Kinds
// and whose path class is in Classes (0 = any), after Skip matching operations
// have passed, at most Count times (0 = unlimited) and, if Until > 0, only
// while the fake time since disk creation is below Until.
type Fault struct {
	Name    string `json:"name"`
	Kinds   uint32 `json:"kinds"`   // bit mask over OpKind
	Classes uint32 `json:"classes"` // bit mask over Class; 0 = any
	// PathPrefix, if set, restricts the rule to paths with this prefix (one
	// "device" of several directories on the simulated disk).
	PathPrefix string  `json:"path_prefix,omitempty"`
	Skip       int     `json:"skip"`
	Count      int     `json:"count"`
	From       int64   `json:"from_ns,omitempty"`
	Until      int64   `json:"until_ns,omitempty"`
	Errno      string  `json:"errno"`           // "EIO" | "ENOSPC"
	Short      bool    `json:"short,omitempty"` // writes: apply a prefix, then fail
	Prob       float64 `json:"prob,omitempty"`  // if >0, fire with this probability (own PRNG stream)
	// Delay, if >0, makes the operation sleep for this long on the fake clock
	// instead of failing (stall injection).
	DelayNs int64 `json:"delay_ns,omitempty"`

	seen  int
	fired int
}

func KindMask(ks ...OpKind) uint32 {
	var m uint32
	for _, k := range ks {
		m |= 1 << k
	}
	return m
}

func ClassMask(cs ...Class) uint32 {
	var m uint32
	for _, c := range cs {
		m |= 1 << c
	}
	return m
}

// Stats counts what actually happened on a disk.
type Stats struct {
	Ops        [nOpKinds]int
	FaultFired map[string]int
	Delays     int
	Crashes    int
	BytesWrite int64
}

// Disk is a simulated device. Several Disks may exist in one run (primary and
// secondary WAL devices, crash images).
type Disk struct {
	mu      sync.Mutex // real mutex, never held across a yield
	Name    string
	root    *node
	base    *Disk // initial state if this disk started as a crash image
	nextIno int
	byIno   map[int]*node
	log     []Op
	logging bool
	start   time.Time

	locks map[string]*simrt.Inc

	faults   []*Fault
	faultRng simrt.Rng
	St       Stats

	// CrashAt, if >=0, kills the calling incarnation right before the mutation
	// with this log index is applied.
	CrashAt int
	// OnCrash is called (by the crashing task) after the incarnation was
	// killed and before the task parks forever.
	OnCrash func()
	// OnMutation, if set, is called after each logged mutation with its index
	// (used by harness monitors; must not block or yield).
	OnMutation func(idx int, op *Op)
	// OnFault, if set, is called (without the disk lock) each time an error is
	// injected.
	OnFault func()
	// OnFaultOp, if set, is called like OnFault with the failed operation.
	OnFaultOp func(kind OpKind, path string)
	// OnRemove, if set, is called before a Remove is applied.
	OnRemove func(path string)

	// NoYield disables yield points (used while verifying images).
	NoYield bool
	// ShuffleList makes List return a seeded permutation instead of sorted names.
	ShuffleList bool
}

func New(name string, seed uint64) *Disk {
	d := &Disk{Name: name, CrashAt: -1, logging: true, byIno: map[int]*node{}, locks: map[string]*simrt.Inc{}}
	d.root = d.newNode(true)
	d.faultRng = simrt.NewRng(seed, 77)
	d.start = time.Now()
	d.St.FaultFired = map[string]int{}
	return d
}

func (d *Disk) newNode(dir bool) *node {
	n := &node{ino: d.nextIno, isDir: dir}
	d.nextIno++
	if dir {
		n.children = map[string]*node{}
		n.syncedChildren = map[string]*node{}
	}
	d.byIno[n.ino] = n
	return n
}

// SetFaults installs the fault rules (replacing previous ones).
func (d *Disk) SetFaults(fs []*Fault) {
	d.mu.Lock()
	d.faults = fs
	d.mu.Unlock()
}

// ClearFaults removes all rules ("faults stop").
func (d *Disk) ClearFaults() { d.SetFaults(nil) }

// LogLen returns the number of mutations applied so far.
func (d *Disk) LogLen() int {
	d.mu.Lock()
	defer d.mu.Unlock()
	return len(d.log)
}

// LogOp returns a logged operation.
func (d *Disk) LogOp(i int) Op {
	d.mu.Lock()
	defer d.mu.Unlock()
	return d.log[i]
}

func split(p string) []string {
	p = path.Clean("/" + p)
	if p == "/" {
		return nil
	}
	return strings.Split(p[1:], "/")
}

func notExist(op, p string) error {
	return &os.PathError{Op: op, Path: p, Err: oserror.ErrNotExist}
}

// lookupDir returns the directory containing p and the final name.
func (d *Disk) lookupDir(op, p string) (*node, string, error) {
	parts := split(p)
	if len(parts) == 0 {
		return nil, "", errors.New("simfs: empty file name")
	}
	dir := d.root
	for _, s := range parts[:len(parts)-1] {
		c := dir.children[s]
		if c == nil {
			return nil, "", notExist(op, p)
		}
		if !c.isDir {
			return nil, "", &os.PathError{Op: op, Path: p, Err: errors.New("not a directory")}
		}
		dir = c
	}
	return dir, parts[len(parts)-1], nil
}

func (d *Disk) lookup(op, p string) (*node, error) {
	parts := split(p)
	n := d.root
	for _, s := range parts {
		if !n.isDir {
			return nil, &os.PathError{Op: op, Path: p, Err: errors.New("not a directory")}
		}
		c := n.children[s]
		if c == nil {
			return nil, notExist(op, p)
		}
		n = c
	}
	return n, nil
}

func errnoOf(s string) error {
	switch s {
	case "ENOSPC":
		return syscall.ENOSPC
	}
	return syscall.EIO
}

// InjectedError wraps every injected failure so harnesses can recognise them.
type InjectedError struct {
	Op    OpKind
	Path  string
	Errno error
}

func (e *InjectedError) Error() string {
	return fmt.Sprintf("simfs: injected %v on %s %s", e.Errno, e.Op, e.Path)
}
func (e *InjectedError) Unwrap() error { return e.Errno }

// IsInjected reports whether err stems from an injected fault.
func IsInjected(err error) bool {
	var ie *InjectedError
	return errors.As(err, &ie)
}

// pre is the common prologue of every operation: yield point, crash trigger
// (for mutations), fault rules. It returns (short-write flag, error).
func (d *Disk) pre(kind OpKind, p string) (bool, error) {
	if !d.NoYield {
		simrt.Yield("fs")
	}
	cls := ClassOf(p)
	d.mu.Lock()
	d.St.Ops[kind]++
	if kind.Mutation() && d.CrashAt >= 0 && len(d.log) >= d.CrashAt && simrt.Active() {
		inc := simrt.CurInc()
		if inc != nil && !inc.Dead {
			d.St.Crashes++
			d.mu.Unlock()
			simrt.Kill(inc)
			if d.OnCrash != nil {
				d.OnCrash()
			}
			simrt.ParkForever()
		}
	}
	var hit *Fault
	now := int64(time.Since(d.start))
	for _, f := range d.faults {
		if f.Kinds&(1<<kind) == 0 {
			continue
		}
		if f.Classes != 0 && f.Classes&(1<<cls) == 0 {
			continue
		}
		if f.PathPrefix != "" && !strings.HasPrefix(path.Clean("/"+p), f.PathPrefix) {
			continue
		}
		if now < f.From || (f.Until > 0 && now >= f.Until) {
			continue
		}
		f.seen++
		if f.seen <= f.Skip {
			continue
		}
		if f.Count > 0 && f.fired >= f.Count {
			continue
		}
		if f.Prob > 0 && d.faultRng.Float() >= f.Prob {
			continue
		}
		f.fired++
		hit = f
		break
	}
	if hit == nil {
		d.mu.Unlock()
		return false, nil
	}
	d.St.FaultFired[hit.Name]++
	if hit.DelayNs > 0 {
		d.St.Delays++
		d.mu.Unlock()
		simrt.Note("fsdelay " + kind.String() + " " + p)
		simrt.Sleep(time.Duration(hit.DelayNs))
		return false, nil
	}
	if inc := simrt.CurInc(); inc != nil {
		inc.FaultFired = true
	}
	short := hit.Short
	err := &InjectedError{Op: kind, Path: p, Errno: errnoOf(hit.Errno)}
	d.mu.Unlock()
	if d.OnFault != nil {
		d.OnFault()
	}
	if d.OnFaultOp != nil {
		d.OnFaultOp(kind, p)
	}
	simrt.Note("fsfault " + kind.String() + " " + p)
	if DebugFaults != nil {
		DebugFaults("fsfault " + kind.String() + " " + p + " rule=" + hit.Name)
	}
	return short, err
}

// DebugFaults, if set, is told about every injected error (debug runs only).
var DebugFaults func(string)

// appendLog records a mutation; d.mu is held.
func (d *Disk) appendLog(op Op) {
	if !d.logging {
		return
	}
	if t := simrt.Cur(); t != nil {
		op.Task = t.ID
	}
	op.Time = time.Since(d.start)
	d.log = append(d.log, op)
	simrt.NoteInt(uint64(op.Kind)<<56 ^ uint64(len(op.Data))<<32 ^ uint64(op.Ino)<<8 ^ uint64(len(d.log)))
	if d.OnMutation != nil {
		d.OnMutation(len(d.log)-1, &d.log[len(d.log)-1])
	}
}

// ---- FS implementation ----

var _ vfs.FS = (*Disk)(nil)

func (d *Disk) Create(name string, _ vfs.DiskWriteCategory) (vfs.File, error) {
	if _, err := d.pre(OpCreate, name); err != nil {
		return nil, err
	}
	d.mu.Lock()
	defer d.mu.Unlock()
	n, err := d.applyCreate(name)
	if err != nil {
		return nil, err
	}
	d.appendLog(Op{Kind: OpCreate, Path: name, Ino: n.ino})
	n.refs++
	return &file{d: d, n: n, name: name, read: true, write: true}, nil
}

func (d *Disk) applyCreate(name string) (*node, error) {
	dir, frag, err := d.lookupDir("create", name)
	if err != nil {
		return nil, err
	}
	n := d.newNode(false)
	n.modTime = time.Now()
	dir.children[frag] = n
	return n, nil
}

func (d *Disk) Link(oldname, newname string) error {
	if _, err := d.pre(OpLink, newname); err != nil {
		return err
	}
	d.mu.Lock()
	defer d.mu.Unlock()
	if err := d.applyLink(oldname, newname); err != nil {
		return err
	}
	d.appendLog(Op{Kind: OpLink, Path: oldname, Path2: newname})
	return nil
}

func (d *Disk) applyLink(oldname, newname string) error {
	n, err := d.lookup("link", oldname)
	if err != nil {
		return err
	}
	if n.isDir {
		return &os.LinkError{Op: "link", Old: oldname, New: newname, Err: errors.New("is a directory")}
	}
	dir, frag, err := d.lookupDir("link", newname)
	if err != nil {
		return err
	}
	if _, ok := dir.children[frag]; ok {
		return &os.LinkError{Op: "link", Old: oldname, New: newname, Err: oserror.ErrExist}
	}
	dir.children[frag] = n
	return nil
}

func (d *Disk) open(name string, write bool) (vfs.File, error) {
	if _, err := d.pre(OpOpen, name); err != nil {
		return nil, err
	}
	d.mu.Lock()
	defer d.mu.Unlock()
	n, err := d.lookup("open", name)
	if err != nil {
		return nil, err
	}
	n.refs++
	return &file{d: d, n: n, name: name, read: true, write: write}, nil
}

func (d *Disk) Open(name string, opts ...vfs.OpenOption) (vfs.File, error) {
	f, err := d.open(name, false)
	if err != nil {
		return nil, err
	}
	for _, o := range opts {
		o.Apply(f)
	}
	return f, nil
}

func (d *Disk) OpenReadWrite(name string, _ vfs.DiskWriteCategory, opts ...vfs.OpenOption) (vfs.File, error) {
	f, err := d.open(name, true)
	if err != nil {
		return nil, err
	}
	for _, o := range opts {
		o.Apply(f)
	}
	return f, nil
}

func (d *Disk) OpenDir(name string) (vfs.File, error) { return d.open(name, false) }

func (d *Disk) Remove(name string) error {
	if _, err := d.pre(OpRemove, name); err != nil {
		return err
	}
	if d.OnRemove != nil {
		d.OnRemove(name)
	}
	d.mu.Lock()
	defer d.mu.Unlock()
	if err := d.applyRemove(name); err != nil {
		return err
	}
	d.appendLog(Op{Kind: OpRemove, Path: name})
	return nil
}

func (d *Disk) applyRemove(name string) error {
	dir, frag, err := d.lookupDir("remove", name)
	if err != nil {
		return err
	}
	c, ok := dir.children[frag]
	if !ok {
		return notExist("remove", name)
	}
	if len(c.children) > 0 {
		return &os.PathError{Op: "remove", Path: name, Err: errors.New("directory not empty")}
	}
	delete(dir.children, frag)
	return nil
}

func (d *Disk) RemoveAll(name string) error {
	if _, err := d.pre(OpRemoveAll, name); err != nil {
		return err
	}
	d.mu.Lock()
	defer d.mu.Unlock()
	d.applyRemoveAll(name)
	d.appendLog(Op{Kind: OpRemoveAll, Path: name})
	return nil
}

func (d *Disk) applyRemoveAll(name string) {
	dir, frag, err := d.lookupDir("removeall", name)
	if err != nil {
		return
	}
	delete(dir.children, frag)
}

func (d *Disk) Rename(oldname, newname string) error {
	if _, err := d.pre(OpRename, newname); err != nil {
		return err
	}
	d.mu.Lock()
	defer d.mu.Unlock()
	if err := d.applyRename(oldname, newname); err != nil {
		return err
	}
	d.appendLog(Op{Kind: OpRename, Path: oldname, Path2: newname})
	return nil
}

func (d *Disk) applyRename(oldname, newname string) error {
	odir, ofrag, err := d.lookupDir("rename", oldname)
	if err != nil {
		return err
	}
	n := odir.children[ofrag]
	if n == nil {
		return notExist("rename", oldname)
	}
	ndir, nfrag, err := d.lookupDir("rename", newname)
	if err != nil {
		return err
	}
	delete(odir.children, ofrag)
	ndir.children[nfrag] = n
	return nil
}

func (d *Disk) ReuseForWrite(oldname, newname string, _ vfs.DiskWriteCategory) (vfs.File, error) {
	if _, err := d.pre(OpReuse, newname); err != nil {
		return nil, err
	}
	if d.OnRemove != nil {
		// the old file's contents are about to be overwritten: as far as its
		// old identity is concerned this is a removal
		d.OnRemove(oldname)
	}
	d.mu.Lock()
	defer d.mu.Unlock()
	if err := d.applyRename(oldname, newname); err != nil {
		return nil, err
	}
	d.appendLog(Op{Kind: OpReuse, Path: oldname, Path2: newname})
	n, err := d.lookup("open", newname)
	if err != nil {
		return nil, err
	}
	n.refs++
	return &file{d: d, n: n, name: newname, write: true}, nil
}

func (d *Disk) MkdirAll(dir string, _ os.FileMode) error {
	if _, err := d.pre(OpMkdir, dir); err != nil {
		return err
	}
	d.mu.Lock()
	defer d.mu.Unlock()
	changed, err := d.applyMkdirAll(dir)
	if err != nil {
		return err
	}
	if changed {
		d.appendLog(Op{Kind: OpMkdir, Path: dir})
	}
	return nil
}

func (d *Disk) applyMkdirAll(dir string) (bool, error) {
	n := d.root
	changed := false
	for _, s := range split(dir) {
		c := n.children[s]
		if c == nil {
			c = d.newNode(true)
			n.children[s] = c
			changed = true
		} else if !c.isDir {
			return changed, &os.PathError{Op: "mkdir", Path: dir, Err: errors.New("not a directory")}
		}
		n = c
	}
	return changed, nil
}

type lockCloser struct {
	d    *Disk
	name string
	inc  *simrt.Inc
}

func (l *lockCloser) Close() error {
	l.d.mu.Lock()
	defer l.d.mu.Unlock()
	if l.d.locks[l.name] != l.inc {
		return errors.New("simfs: lock not held")
	}
	delete(l.d.locks, l.name)
	return nil
}

var lockOwnerNone = &simrt.Inc{ID: -1}

func (d *Disk) Lock(name string) (io.Closer, error) {
	if _, err := d.pre(OpLock, name); err != nil {
		return nil, err
	}
	d.mu.Lock()
	defer d.mu.Unlock()
	inc := simrt.CurInc()
	if inc == nil {
		inc = lockOwnerNone
	}
	if o, ok := d.locks[name]; ok && !o.Dead {
		return nil, errors.Newf("lock held by current process on %q", name)
	}
	// Like MemFS: create the file if it does not exist.
	if _, err := d.lookup("lock", name); err != nil {
		dir, frag, err := d.lookupDir("lock", name)
		if err != nil {
			return nil, err
		}
		n := d.newNode(false)
		dir.children[frag] = n
		d.appendLog(Op{Kind: OpCreate, Path: name, Ino: n.ino})
	}
	d.locks[name] = inc
	return &lockCloser{d: d, name: name, inc: inc}, nil
}

// HeldLocks lists lock files held by live incarnations.
func (d *Disk) HeldLocks() []string {
	d.mu.Lock()
	defer d.mu.Unlock()
	var out []string
	for k, o := range d.locks {
		if !o.Dead {
			out = append(out, k)
		}
	}
	sort.Strings(out)
	return out
}

func (d *Disk) List(dir string) ([]string, error) {
	if _, err := d.pre(OpList, dir); err != nil {
		return nil, err
	}
	d.mu.Lock()
	defer d.mu.Unlock()
	n, err := d.lookup("open", dir)
	if err != nil {
		return nil, err
	}
	if !n.isDir {
		return nil, &os.PathError{Op: "list", Path: dir, Err: errors.New("not a directory")}
	}
	out := make([]string, 0, len(n.children))
	for s := range n.children {
		out = append(out, s)
	}
	sort.Strings(out)
	if d.ShuffleList {
		for i := len(out) - 1; i > 0; i-- {
			j := d.faultRng.IntN(i + 1)
			out[i], out[j] = out[j], out[i]
		}
	}
	return out, nil
}

func (d *Disk) Stat(name string) (vfs.FileInfo, error) {
	if _, err := d.pre(OpStat, name); err != nil {
		return nil, err
	}
	d.mu.Lock()
	defer d.mu.Unlock()
	n, err := d.lookup("stat", name)
	if err != nil {
		return nil, err
	}
	return &fileInfo{name: path.Base(name), size: int64(len(n.data)), isDir: n.isDir, modTime: n.modTime}, nil
}

func (*Disk) PathBase(p string) string       { return path.Base(p) }
func (*Disk) PathJoin(elem ...string) string { return path.Join(elem...) }
func (*Disk) PathDir(p string) string        { return path.Dir(p) }
func (d *Disk) GetDiskUsage(string) (vfs.DiskUsage, error) {
	return vfs.DiskUsage{AvailBytes: 1 << 40, TotalBytes: 2 << 40, UsedBytes: 1 << 40}, nil
}
func (d *Disk) Unwrap() vfs.FS { return nil }

// Exists reports whether a path exists in the live view (no yield, no fault).
func (d *Disk) Exists(p string) bool {
	d.mu.Lock()
	defer d.mu.Unlock()
	_, err := d.lookup("stat", p)
	return err == nil
}

// ReadFile returns a copy of a file's live contents (no yield, no fault).
func (d *Disk) ReadFile(p string) ([]byte, error) {
	d.mu.Lock()
	defer d.mu.Unlock()
	n, err := d.lookup("open", p)
	if err != nil {
		return nil, err
	}
	return append([]byte(nil), n.data...), nil
}

// SyncedLen returns the durable length of a file (no yield, no fault).
func (d *Disk) SyncedLen(p string) int {
	d.mu.Lock()
	defer d.mu.Unlock()
	n, err := d.lookup("open", p)
	if err != nil {
		return -1
	}
	return len(n.syncedData)
}

// Durable reports whether the directory entry of p would survive a crash that
// keeps only durable state (the entry is in its directory's synced listing and
// names the same file) and whether the file's data is completely durable.
func (d *Disk) Durable(p string) (entry, data bool) {
	d.mu.Lock()
	defer d.mu.Unlock()
	dir, name, err := d.lookupDir("stat", p)
	if err != nil {
		return false, false
	}
	n := dir.children[name]
	if n == nil {
		return false, false
	}
	entry = dir.syncedChildren[name] == n
	data = len(n.syncedData) == len(n.data) && string(n.syncedData) == string(n.data)
	return
}

// ReadDurable returns a copy of a file's durable contents (what a crash that
// keeps only synced data would leave), or nil if the file does not exist.
func (d *Disk) ReadDurable(p string) []byte {
	d.mu.Lock()
	defer d.mu.Unlock()
	n, err := d.lookup("open", p)
	if err != nil {
		return nil
	}
	return append([]byte(nil), n.syncedData...)
}

// SyncedPrefixLen returns the length of the longest prefix of the file's live
// contents that is durable (synced data equal to live data).
func (d *Disk) SyncedPrefixLen(p string) int {
	d.mu.Lock()
	defer d.mu.Unlock()
	n, err := d.lookup("open", p)
	if err != nil {
		return -1
	}
	i := 0
	for i < len(n.syncedData) && i < len(n.data) && n.syncedData[i] == n.data[i] {
		i++
	}
	return i
}

// ListNoFault lists a directory without yield or fault, sorted.
func (d *Disk) ListNoFault(dir string) []string {
	d.mu.Lock()
	defer d.mu.Unlock()
	n, err := d.lookup("open", dir)
	if err != nil || !n.isDir {
		return nil
	}
	out := make([]string, 0, len(n.children))
	for s := range n.children {
		out = append(out, s)
	}
	sort.Strings(out)
	return out
}

// OpenHandles counts open file handles on the disk.
func (d *Disk) OpenHandles() (n int, names []string) {
	d.mu.Lock()
	defer d.mu.Unlock()
	var walk func(p string, nd *node)
	seen := map[*node]bool{}
	walk = func(p string, nd *node) {
		if seen[nd] {
			return
		}
		seen[nd] = true
		if nd.refs > 0 {
			n += nd.refs
			names = append(names, fmt.Sprintf("%s(%d)", p, nd.refs))
		}
		keys := make([]string, 0, len(nd.children))
		for k := range nd.children {
			keys = append(keys, k)
		}
		sort.Strings(keys)
		for _, k := range keys {
			walk(p+"/"+k, nd.children[k])
		}
	}
	walk("", d.root)
	return
}

// Corrupt applies fn to the live (and durable) bytes of a file: bit rot at rest.
func (d *Disk) Corrupt(p string, fn func(data []byte) []byte) error {
	d.mu.Lock()
	defer d.mu.Unlock()
	n, err := d.lookup("open", p)
	if err != nil {
		return err
	}
	n.data = fn(append([]byte(nil), n.data...))
	n.syncedData = append([]byte(nil), n.data...)
	return nil
}

type fileInfo struct {
	name    string
	size    int64
	isDir   bool
	modTime time.Time
}

func (f *fileInfo) Name() string       { return f.name }
func (f *fileInfo) Size() int64        { return f.size }
func (f *fileInfo) Mode() os.FileMode  { return 0644 }
func (f *fileInfo) ModTime() time.Time { return f.modTime }
func (f *fileInfo) IsDir() bool        { return f.isDir }
func (f *fileInfo) Sys() interface{}   { return nil }
func (f *fileInfo) DeviceID() vfs.DeviceID {
	return vfs.DeviceID{}
}

// ---- File ----

type file struct {
	d           *Disk
	n           *node
	name        string
	pos         int
	read, write bool
	closed      bool
}

var _ vfs.File = (*file)(nil)

func (f *file) Close() error {
	f.d.mu.Lock()
	defer f.d.mu.Unlock()
	if f.closed {
		panic(errors.AssertionFailedf("simfs: double close of %s", f.name))
	}
	f.closed = true
	f.n.refs--
	return nil
}

func (f *file) Read(p []byte) (int, error) {
	if _, err := f.d.pre(OpRead, f.name); err != nil {
		return 0, err
	}
	f.d.mu.Lock()
	defer f.d.mu.Unlock()
	if f.n.isDir {
		return 0, errors.New("simfs: cannot read a directory")
	}
	if f.pos >= len(f.n.data) {
		return 0, io.EOF
	}
	n := copy(p, f.n.data[f.pos:])
	f.pos += n
	return n, nil
}

func (f *file) ReadAt(p []byte, off int64) (int, error) {
	if _, err := f.d.pre(OpRead, f.name); err != nil {
		return 0, err
	}
	f.d.mu.Lock()
	defer f.d.mu.Unlock()
	if f.n.isDir {
		return 0, errors.New("simfs: cannot read a directory")
	}
	if off >= int64(len(f.n.data)) {
		return 0, io.EOF
	}
	n := copy(p, f.n.data[off:])
	if n < len(p) {
		return n, io.EOF
	}
	return n, nil
}

func (d *Disk) applyWrite(n *node, off int64, p []byte) {
	end := int(off) + len(p)
	if end > len(n.data) {
		if end <= cap(n.data) {
			old := len(n.data)
			n.data = n.data[:end]
			for i := old; i < int(off); i++ {
				n.data[i] = 0
			}
		} else {
			nd := make([]byte, end, end+end/2+64)
			copy(nd, n.data)
			n.data = nd
		}
	}
	copy(n.data[off:], p)
	n.modTime = time.Now()
}

func (f *file) writeAt(p []byte, off int64) (int, error) {
	if !f.write {
		return 0, errors.New("simfs: file was not opened for writing")
	}
	short, err := f.d.pre(OpWrite, f.name)
	if err != nil && !short {
		return 0, err
	}
	f.d.mu.Lock()
	defer f.d.mu.Unlock()
	if f.n.isDir {
		return 0, errors.New("simfs: cannot write a directory")
	}
	q := p
	if err != nil {
		q = p[:len(p)/2]
	}
	if len(q) > 0 {
		data := append([]byte(nil), q...)
		f.d.applyWrite(f.n, off, data)
		f.d.St.BytesWrite += int64(len(q))
		f.d.appendLog(Op{Kind: OpWrite, Path: f.name, Ino: f.n.ino, Off: off, Data: data})
	}
	// Like MemFS under invariants: mutate the caller's buffer to flush out
	// code that expects it to stay unmodified... no: the vfs contract allows
	// the callee to retain nothing; leave p alone.
	return len(q), err
}

func (f *file) Write(p []byte) (int, error) {
	n, err := f.writeAt(p, int64(f.pos))
	f.pos += n
	return n, err
}

func (f *file) WriteAt(p []byte, off int64) (int, error) { return f.writeAt(p, off) }

func (f *file) Preallocate(offset, length int64) error { return nil }
func (f *file) Prefetch(offset, length int64) error    { return nil }
func (f *file) Fd() uintptr                            { return vfs.InvalidFd }

func (f *file) Stat() (vfs.FileInfo, error) {
	f.d.mu.Lock()
	defer f.d.mu.Unlock()
	return &fileInfo{name: path.Base(f.name), size: int64(len(f.n.data)), isDir: f.n.isDir, modTime: f.n.modTime}, nil
}

func (d *Disk) applySync(n *node) {
	if n.isDir {
		m := make(map[string]*node, len(n.children))
		for k, v := range n.children {
			m[k] = v
		}
		n.syncedChildren = m
	} else {
		n.syncedData = append(n.syncedData[:0], n.data...)
	}
}

func (f *file) Sync() error {
	kind := OpSync
	if f.n.isDir {
		kind = OpSyncDir
	}
	if _, err := f.d.pre(kind, f.name); err != nil {
		return err
	}
	f.d.mu.Lock()
	defer f.d.mu.Unlock()
	f.d.applySync(f.n)
	f.d.appendLog(Op{Kind: kind, Path: f.name, Ino: f.n.ino})
	return nil
}

func (f *file) SyncData() error { return f.Sync() }

// SyncTo promises nothing (as MemFS): it is a yield point and can fail, but
// makes nothing durable.
func (f *file) SyncTo(length int64) (bool, error) {
	if !f.d.NoYield {
		simrt.Yield("fs")
	}
	return false, nil
}

// Flush is present to prevent buffering at higher levels (as in MemFS).
func (f *file) Flush() error { return nil }
