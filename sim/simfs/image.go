package simfs

import (
	"fmt"
	"sort"

	"github.com/cockroachdb/pebble/verifsim/simrt"
)

// Survival describes what happens to data that was not durable at a crash.
type Survival struct {
	// Mode: "none" (only durable state survives), "all" (everything written
	// survives), "pct" (each unsynced directory entry and each unsynced 4 KiB
	// block survives with probability Pct/100), "prefix" (unsynced entries as
	// pct; each file keeps a prefix of its unsynced blocks), "mask" (bit i of
	// Mask decides item i of the sorted unsynced item list; exhaustive
	// enumeration of small sets).
	Mode string `json:"mode"`
	Pct  int    `json:"pct,omitempty"`
	Seed uint64 `json:"seed,omitempty"`
	Mask uint64 `json:"mask,omitempty"`
	// Block size for data survival (default 4096).
	Block int `json:"block,omitempty"`
}

func (s Survival) String() string {
	switch s.Mode {
	case "pct", "prefix":
		return fmt.Sprintf("%s(%d%%,seed=%d)", s.Mode, s.Pct, s.Seed)
	case "mask":
		return fmt.Sprintf("mask(%b)", s.Mask)
	}
	return s.Mode
}

// ReplayPrefix builds a fresh disk by applying the first k logged mutations of
// d. The result has the same inode numbers, live view and durable view that d
// had right after mutation k-1.
func (d *Disk) ReplayPrefix(k int) *Disk {
	d.mu.Lock()
	log := d.log
	if k > len(log) {
		k = len(log)
	}
	d.mu.Unlock()
	var nd *Disk
	if d.base != nil {
		// d started life as a crash image: replay on top of its initial state
		// (which has no unsynced data, so this copy is exact).
		nd = d.base.CrashImage(Survival{Mode: "none"})
		nd.base = nil
		nd.Name = d.Name + "@" + fmt.Sprint(k)
	} else {
		nd = New(d.Name+"@"+fmt.Sprint(k), 0)
	}
	nd.logging = false
	for i := 0; i < k; i++ {
		nd.applyOp(&log[i])
	}
	nd.logging = true
	return nd
}

func (d *Disk) applyOp(op *Op) {
	switch op.Kind {
	case OpCreate:
		n, err := d.applyCreate(op.Path)
		if err != nil {
			panic(fmt.Sprintf("simfs replay: %v", err))
		}
		if n.ino != op.Ino {
			panic(fmt.Sprintf("simfs replay: inode mismatch %d != %d for %s", n.ino, op.Ino, op.Path))
		}
	case OpWrite:
		d.applyWrite(d.byIno[op.Ino], op.Off, op.Data)
	case OpSync, OpSyncDir:
		d.applySync(d.byIno[op.Ino])
	case OpRename, OpReuse:
		if err := d.applyRename(op.Path, op.Path2); err != nil {
			panic(fmt.Sprintf("simfs replay: %v", err))
		}
	case OpLink:
		if err := d.applyLink(op.Path, op.Path2); err != nil {
			panic(fmt.Sprintf("simfs replay: %v", err))
		}
	case OpRemove:
		if err := d.applyRemove(op.Path); err != nil {
			panic(fmt.Sprintf("simfs replay: %v", err))
		}
	case OpRemoveAll:
		d.applyRemoveAll(op.Path)
	case OpMkdir:
		d.applyMkdirAll(op.Path)
	}
}

// UnsyncedItem is one unit whose survival a crash decides.
type UnsyncedItem struct {
	Path  string // directory entry path, or file path for a data block
	Block int    // -1 for a directory entry, else block index
}

type imageBuilder struct {
	src    *Disk
	dst    *Disk
	spec   Survival
	rng    simrt.Rng
	memo   map[*node]*node
	items  []UnsyncedItem // collected when counting
	nitem  int
	count  bool
	bsize  int
	prefix map[*node]int
}

func (b *imageBuilder) keep(path string, block int) bool {
	idx := b.nitem
	b.nitem++
	if b.count {
		b.items = append(b.items, UnsyncedItem{path, block})
		return true // descend into everything so that all items are listed
	}
	switch b.spec.Mode {
	case "none":
		return false
	case "all":
		return true
	case "mask":
		return idx < 64 && b.spec.Mask&(1<<uint(idx)) != 0
	default:
		return b.rng.IntN(100) < b.spec.Pct
	}
}

func (b *imageBuilder) cloneNode(p string, n *node) *node {
	if c, ok := b.memo[n]; ok {
		return c
	}
	c := &node{ino: n.ino, isDir: n.isDir, modTime: n.modTime}
	b.memo[n] = c
	b.dst.byIno[c.ino] = c
	if n.isDir {
		c.children = map[string]*node{}
		names := make([]string, 0, len(n.children)+len(n.syncedChildren))
		for k := range n.syncedChildren {
			names = append(names, k)
		}
		for k, v := range n.children {
			if sv, ok := n.syncedChildren[k]; !ok || sv != v {
				if !ok {
					names = append(names, k)
				}
			}
		}
		sort.Strings(names)
		for _, k := range names {
			sv, synced := n.syncedChildren[k]
			lv, live := n.children[k]
			var pick *node
			switch {
			case synced && (!live || lv == sv):
				// durable entry (an unsynced removal never survives, as in MemFS)
				pick = sv
			case synced && live && lv != sv:
				// entry replaced (create over existing name, rename onto it)
				if b.keep(p+"/"+k, -1) {
					pick = lv
				} else {
					pick = sv
				}
			case !synced && live:
				if b.keep(p+"/"+k, -1) {
					pick = lv
				}
			}
			if pick != nil {
				c.children[k] = b.cloneNode(p+"/"+k, pick)
			}
		}
		c.syncedChildren = make(map[string]*node, len(c.children))
		for k, v := range c.children {
			c.syncedChildren[k] = v
		}
		return c
	}
	// file data: durable bytes plus surviving unsynced blocks
	data := append([]byte(nil), n.syncedData...)
	bs := b.bsize
	if b.spec.Mode == "prefix" && !b.count {
		// keep a prefix of the unsynced blocks
		var unsynced []int
		for i := 0; i < len(n.data); i += bs {
			end := min(i+bs, len(n.data))
			if !blockSynced(n, i, end) {
				unsynced = append(unsynced, i)
			}
		}
		cut := 0
		if len(unsynced) > 0 {
			cut = b.rng.IntN(len(unsynced) + 1)
		}
		for _, i := range unsynced[:cut] {
			end := min(i+bs, len(n.data))
			if grow := end - len(data); grow > 0 {
				data = append(data, make([]byte, grow)...)
			}
			copy(data[i:], n.data[i:end])
		}
	} else {
		for i := 0; i < len(n.data); i += bs {
			end := min(i+bs, len(n.data))
			if blockSynced(n, i, end) {
				continue
			}
			if b.keep(p, i/bs) {
				if grow := end - len(data); grow > 0 {
					data = append(data, make([]byte, grow)...)
				}
				copy(data[i:], n.data[i:end])
			}
		}
	}
	c.data = data
	c.syncedData = append([]byte(nil), data...)
	return c
}

func blockSynced(n *node, i, end int) bool {
	if end > len(n.syncedData) {
		return false
	}
	a, s := n.data[i:end], n.syncedData[i:end]
	for j := range a {
		if a[j] != s[j] {
			return false
		}
	}
	return true
}

// CrashImage returns a new disk holding a possible post-crash state of d's
// current state under the survival spec. Deterministic.
func (d *Disk) CrashImage(spec Survival) *Disk {
	d.mu.Lock()
	defer d.mu.Unlock()
	b := d.builder(spec)
	b.dst.root = b.cloneNode("", d.root)
	// Keep a frozen copy of the image's initial state so that its own
	// mutation log can be replayed later (crash forks of a recovered DB).
	b2 := b.dst.builder(Survival{Mode: "none"})
	b2.dst.root = b2.cloneNode("", b.dst.root)
	b.dst.base = b2.dst
	return b.dst
}

func (d *Disk) builder(spec Survival) *imageBuilder {
	nd := New(d.Name+"!", 0)
	nd.nextIno = d.nextIno
	nd.byIno = map[int]*node{}
	bs := spec.Block
	if bs == 0 {
		bs = 4096
	}
	return &imageBuilder{src: d, dst: nd, spec: spec, rng: simrt.NewRng(spec.Seed, 31), memo: map[*node]*node{}, bsize: bs}
}

// UnsyncedItems lists, in the order CrashImage considers them, the directory
// entries and data blocks whose survival a crash would decide right now.
func (d *Disk) UnsyncedItems(block int) []UnsyncedItem {
	d.mu.Lock()
	defer d.mu.Unlock()
	b := d.builder(Survival{Mode: "none", Block: block})
	b.count = true
	b.cloneNode("", d.root)
	return b.items
}

// ImageAt = ReplayPrefix(k).CrashImage(spec).
func (d *Disk) ImageAt(k int, spec Survival) *Disk {
	return d.ReplayPrefix(k).CrashImage(spec)
}

// Clone returns an exact copy of the live and durable state (no crash).
func (d *Disk) Clone() *Disk {
	return d.ReplayPrefix(d.LogLen())
}

// ApplyLogged applies mutation i of src's log to d (a replay cursor of src).
func (d *Disk) ApplyLogged(src *Disk, i int) {
	src.mu.Lock()
	op := &src.log[i]
	src.mu.Unlock()
	d.mu.Lock()
	defer d.mu.Unlock()
	was := d.logging
	d.logging = false
	d.applyOp(op)
	d.logging = was
}
