//go:build !race

package simrt

func raceDisable() {}
func raceEnable()  {}
