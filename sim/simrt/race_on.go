//go:build race

package simrt

import "runtime"

func raceDisable() { runtime.RaceDisable() }
func raceEnable()  { runtime.RaceEnable() }
