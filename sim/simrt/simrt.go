// Package simrt is the simulation runtime: a cooperative ("baton") scheduler
// that runs inside one testing/synctest bubble. Exactly one task executes
// program code at any time; which one runs next is decided by a seeded PRNG.
//
// Race-mode discipline (see DESIGN.md 2.1): every function that touches
// shared simulator state is //go:norace, closure-free, and uses neither Go
// maps nor append on shared slices; baton hand-offs are wrapped in
// RaceDisable/RaceEnable so that the serialised schedule does not create
// happens-before edges between tasks.
package simrt

import (
	"fmt"
	"runtime"
	"runtime/debug"
	"strings"
	"sync"
	"testing/synctest"
	"time"
)

type state int32

const (
	stRunnable state = iota
	stRunning
	stBlocked // blocked on a sim object; woken by Wake/WakeOne
	stInChan  // inside a Go channel op / sleep (may or may not be blocked)
	stDone
	stParked // parked forever (crashed incarnation, failed run)
)

// Rng is a tiny splitmix64 generator with plain fields so that it can be used
// from //go:norace code.
type Rng struct{ s uint64 }

//go:norace
func NewRng(seed, stream uint64) Rng {
	r := Rng{s: seed*0x9E3779B97F4A7C15 ^ (stream+1)*0xD1B54A32D192ED03}
	r.Next()
	return r
}

//go:norace
func (r *Rng) Next() uint64 {
	r.s += 0x9E3779B97F4A7C15
	z := r.s
	z = (z ^ (z >> 30)) * 0xBF58476D1CE4E5B9
	z = (z ^ (z >> 27)) * 0x94D049BB133111EB
	return z ^ (z >> 31)
}

//go:norace
func (r *Rng) IntN(n int) int {
	if n <= 1 {
		return 0
	}
	return int(r.Next() % uint64(n))
}

//go:norace
func (r *Rng) Float() float64 { return float64(r.Next()>>11) / (1 << 53) }

// Uint64 makes Rng a math/rand/v2 Source.
//
//go:norace
func (r *Rng) Uint64() uint64 { return r.Next() }

// Inc is one incarnation of the simulated process. A crash marks it dead and
// none of its tasks is ever scheduled again.
type Inc struct {
	ID     int
	Dead   bool
	Frozen bool
	// FaultFired is set by the simulated disk when it injects an error into
	// this incarnation (used to classify Fatalf).
	FaultFired bool
}

type Task struct {
	ID     uint64
	Kind   string
	resume chan struct{}
	st     state
	Inc    *Inc
	prio   uint64
	class  uint32

	next, prev *Task // live list

	// what the task is blocked on (stBlocked) and cond-wait registration
	waitKey  uintptr
	condKey  uintptr
	ticket   uint64
	notified bool

	// user data for harnesses (client id etc.)
	Tag int
}

type Policy int

const (
	PolRandom Policy = iota
	PolSticky
	PolPCT
	PolStarve
)

type Config struct {
	Policy     Policy
	Sticky     float64 // PolSticky: probability of continuing the current task
	YieldProb  float64 // probability that an optional yield point yields
	AtomicProb float64 // probability that an atomic-statement yield point yields
	PCTDepth   int
	PCTHorizon int    // expected number of steps over which change points are spread
	StarveMod  uint32 // PolStarve: tasks with class%StarveMod==StarveRem are starved ...
	StarveRem  uint32
	StarveFrom int // ... between these steps
	StarveTo   int
	MaxSteps   int
	Horizon    time.Duration // fake time without progress that counts as a deadlock
	Trace      bool          // include yield sites in the hash and keep a textual trace
	TraceAll   bool          // also trace optional yield points that did not yield
}

type Sim struct {
	mu    sync.Mutex // protects registration by goroutines waking from real blocking
	cur   *Task
	last  *Task
	epoch uint64

	head, tail *Task // live tasks
	nlive      int
	nblocked   int
	nextID     uint64
	nextTicket uint64
	lowPrio    uint64

	wake chan struct{}
	Cfg  Config

	sched    Rng
	yieldRng Rng
	appRng   Rng
	detSalt  uint64 // per-run salt of DetKey
	prioRng  Rng

	pctPoints [16]int

	Steps     int
	Yields    int
	Untracked int
	Spawned   int
	hash      uint64

	failKind string
	failMsg  string
	rootDone bool

	lastProgress time.Time
	RunEpoch     uint64

	TraceLog []string

	// Monitor, if set, is called by the scheduler goroutine after every step
	// (no task is running then). It must not block.
	Monitor func()
}

// S is the active simulation, nil when code runs outside any simulation.
var S *Sim

var runEpochCounter uint64

//go:norace
func New(seed uint64, cfg Config) *Sim {
	if cfg.MaxSteps == 0 {
		cfg.MaxSteps = 20_000_000
	}
	if cfg.Horizon == 0 {
		cfg.Horizon = 10 * time.Minute
	}
	if cfg.PCTHorizon == 0 {
		cfg.PCTHorizon = 20000
	}
	runEpochCounter++
	s := &Sim{
		wake:     make(chan struct{}, 1),
		Cfg:      cfg,
		sched:    NewRng(seed, 1),
		yieldRng: NewRng(seed, 2),
		appRng:   NewRng(seed, 3),
		detSalt:  seed*0x9E3779B97F4A7C15 + 0x7F4A7C15,
		prioRng:  NewRng(seed, 4),
		lowPrio:  1 << 30,
		RunEpoch: runEpochCounter,
		hash:     14695981039346656037,
	}
	if cfg.Policy == PolPCT {
		r := NewRng(seed, 5)
		for i := 0; i < cfg.PCTDepth && i < len(s.pctPoints); i++ {
			s.pctPoints[i] = 1 + r.IntN(cfg.PCTHorizon)
		}
	}
	return s
}

//go:norace
func (s *Sim) Hash() uint64 { return s.hash }

//go:norace
func (s *Sim) mix(v uint64) {
	h := s.hash
	for i := 0; i < 8; i++ {
		h ^= v & 0xff
		h *= 1099511628211
		v >>= 8
	}
	s.hash = h
}

//go:norace
func (s *Sim) mixStr(v string) {
	h := s.hash
	for i := 0; i < len(v); i++ {
		h ^= uint64(v[i])
		h *= 1099511628211
	}
	s.hash = h
}

// Note mixes an application-level event into the run hash (and the trace).
//
//go:norace
func Note(ev string) {
	s := S
	if s == nil {
		return
	}
	s.mixStr(ev)
	if s.Cfg.Trace {
		s.traceAdd("note " + ev)
	}
}

// NoteInt mixes an integer into the run hash.
//
//go:norace
func NoteInt(v uint64) {
	if s := S; s != nil {
		s.mix(v)
	}
}

var traceMu sync.Mutex

func (s *Sim) traceAdd(line string) {
	traceMu.Lock()
	id := uint64(0)
	if s.cur != nil {
		id = s.cur.ID
	}
	s.TraceLog = append(s.TraceLog, fmt.Sprintf("%d t%d %s", s.Steps, id, line))
	traceMu.Unlock()
}

//go:norace
func classOf(kind string) uint32 {
	h := uint32(2166136261)
	for i := 0; i < len(kind); i++ {
		h ^= uint32(kind[i])
		h *= 16777619
	}
	return h
}

//go:norace
func (s *Sim) newTask(id uint64, kind string, inc *Inc) *Task {
	t := &Task{ID: id, Kind: kind, resume: make(chan struct{}), st: stRunnable, Inc: inc, class: classOf(kind)}
	t.prio = s.prioRng.Next()>>2 + (1 << 31)
	s.mu.Lock()
	t.prev = s.tail
	if s.tail != nil {
		s.tail.next = t
	} else {
		s.head = t
	}
	s.tail = t
	s.nlive++
	s.Spawned++
	s.mu.Unlock()
	return t
}

//go:norace
func (s *Sim) unlink(t *Task) {
	if t.prev != nil {
		t.prev.next = t.next
	} else {
		s.head = t.next
	}
	if t.next != nil {
		t.next.prev = t.prev
	} else {
		s.tail = t.prev
	}
	t.next, t.prev = nil, nil
	s.nlive--
}

// park blocks the calling task until the scheduler hands it the baton.
//
//go:norace
func (s *Sim) park(t *Task) {
	raceDisable()
	<-t.resume
	raceEnable()
}

// TraceDepth is the number of stack frames recorded per trace line.
var TraceDepth = 6

func caller(skip int) string {
	var pcs [48]uintptr
	n := runtime.Callers(skip, pcs[:])
	fr := runtime.CallersFrames(pcs[:n])
	out := ""
	for i := 0; i < TraceDepth; i++ {
		f, more := fr.Next()
		if !strings.Contains(f.Function, "verifsim/sim") {
			out += fmt.Sprintf("%s:%d<", f.Function[strings.LastIndex(f.Function, "/")+1:], f.Line)
		}
		if !more {
			break
		}
	}
	return out
}

var fallbackRng = NewRng(1, 99)

// AppRng returns the PRNG that replaces math/rand/v2's global functions.
//
//go:norace
func AppRng() *Rng {
	if s := S; s != nil {
		return &s.appRng
	}
	return &fallbackRng
}

// Procs replaces runtime.GOMAXPROCS(n) in rewritten code.
//
//go:norace
func Procs(n int) int {
	if S == nil {
		return runtime.GOMAXPROCS(n)
	}
	return 4
}

// Cur returns the task holding the baton (nil outside a simulation).
//
//go:norace
func Cur() *Task {
	if S == nil {
		return nil
	}
	return S.cur
}

// CurInc returns the incarnation of the running task.
//
//go:norace
func CurInc() *Inc {
	if S == nil || S.cur == nil {
		return nil
	}
	return S.cur.Inc
}

// Active reports whether the caller runs as a task of a simulation.
//
//go:norace
func Active() bool { return S != nil && S.cur != nil }

// Yield is an optional preemption point.
//
//go:norace
func Yield(site string) {
	s := S
	if s == nil || s.cur == nil {
		return
	}
	if s.Cfg.TraceAll {
		s.tracePoint(site)
	}
	if s.yieldRng.Float() >= s.Cfg.YieldProb {
		return
	}
	s.yieldNow(site, false)
}

func (s *Sim) tracePoint(site string) {
	s.traceAdd("point:" + site + "@" + caller(4))
}

// AtomicYield is an optional preemption point placed before statements that
// perform sync/atomic operations (rewriter rule R11).
//
//go:norace
func AtomicYield() {
	s := S
	if s == nil || s.cur == nil || s.Cfg.AtomicProb == 0 {
		return
	}
	if s.Cfg.TraceAll {
		s.tracePoint("atomic")
	}
	if s.yieldRng.Float() >= s.Cfg.AtomicProb {
		return
	}
	s.yieldNow("atomic", false)
}

// YieldNow is a mandatory yield (the task stays runnable).
//
//go:norace
func YieldNow(site string) {
	s := S
	if s == nil || s.cur == nil {
		return
	}
	s.yieldNow(site, false)
}

// SpinYield is a mandatory yield used for runtime.Gosched spin loops: the
// spinner is moved behind every other task so that strict-priority policies
// cannot livelock on it.
//
//go:norace
func SpinYield() {
	s := S
	if s == nil || s.cur == nil {
		runtime.Gosched()
		return
	}
	s.yieldNow("spin", true)
}

//go:norace
func (s *Sim) yieldNow(site string, spin bool) {
	t := s.cur
	s.Yields++
	if s.Cfg.Trace {
		s.traceYield(site)
	}
	if spin {
		s.lowPrio--
		t.prio = s.lowPrio
	}
	t.st = stRunnable
	s.park(t)
}

func (s *Sim) traceYield(site string) {
	c := caller(5)
	s.mixStr(site)
	s.mixStr(c)
	s.traceAdd("yield:" + site + "@" + c)
}

// Block parks the current task until Wake(key) (or WakeTask) is called.
//
//go:norace
func Block(key uintptr) {
	s := S
	t := s.cur
	t.st = stBlocked
	t.waitKey = key
	s.nblocked++
	s.park(t)
}

//go:norace
func (s *Sim) makeRunnable(t *Task) {
	if t.st == stBlocked {
		t.st = stRunnable
		t.waitKey = 0
		s.nblocked--
	}
}

// Wake makes every task blocked on key runnable. Called by the baton holder.
//
//go:norace
func Wake(key uintptr) {
	s := S
	if s == nil || s.nblocked == 0 {
		return
	}
	for t := s.head; t != nil; t = t.next {
		if t.st == stBlocked && t.waitKey == key {
			s.makeRunnable(t)
		}
	}
}

// CondRegister registers the current task as a waiter of the condition
// variable identified by key; it must be followed by CondWait.
//
//go:norace
func CondRegister(key uintptr) {
	s := S
	t := s.cur
	s.nextTicket++
	t.ticket = s.nextTicket
	t.condKey = key
	t.notified = false
}

// CondWait blocks until the registration made by CondRegister is notified.
//
//go:norace
func CondWait(key uintptr) {
	s := S
	t := s.cur
	for !t.notified {
		Block(key)
	}
	t.condKey = 0
	_ = s
}

// CondNotify notifies the oldest (all=false) or all (all=true) registered
// waiters of key.
//
//go:norace
func CondNotify(key uintptr, all bool) {
	s := S
	if s == nil {
		return
	}
	for {
		var best *Task
		for t := s.head; t != nil; t = t.next {
			if t.condKey == key && !t.notified && !(t.Inc != nil && t.Inc.Dead) {
				if best == nil || t.ticket < best.ticket {
					best = t
				}
			}
		}
		if best == nil {
			return
		}
		best.notified = true
		s.makeRunnable(best)
		if !all {
			return
		}
	}
}

type ChanTok struct {
	t     *Task
	epoch uint64
}

// BeforeChanOp must be called by the baton holder right before a statement
// that may block in the Go runtime (channel op, select, sleep).
//
//go:norace
func BeforeChanOp() ChanTok {
	s := S
	if s == nil || s.cur == nil {
		return ChanTok{}
	}
	t := s.cur
	t.st = stInChan
	return ChanTok{t: t, epoch: s.epoch}
}

// AfterChanOp must be called right after the statement completes.
//
//go:norace
func AfterChanOp(tok ChanTok) {
	t := tok.t
	if t == nil {
		return
	}
	s := S
	if s == nil {
		// The simulation ended while this goroutine was blocked.
		raceDisable()
		select {}
	}
	s.mu.Lock()
	if s.epoch == tok.epoch && s.cur == t {
		// Never lost the baton.
		t.st = stRunning
		s.mu.Unlock()
		Yield("chan")
		return
	}
	t.st = stRunnable
	s.mu.Unlock()
	raceDisable()
	select {
	case s.wake <- struct{}{}:
	default:
	}
	raceEnable()
	s.park(t)
}

// Spawn registers a child task; the returned task must be passed to Start in
// the new goroutine. Called by the baton holder.
//
//go:norace
func Spawn(kind string) *Task {
	s := S
	if s == nil || s.cur == nil {
		return nil
	}
	s.nextID++
	t := s.newTask(s.nextID<<16, kind, s.cur.Inc)
	t.Tag = s.cur.Tag
	return t
}

// SpawnIn is Spawn with an explicit incarnation (used by harness roots).
//
//go:norace
func SpawnIn(kind string, inc *Inc) *Task {
	s := S
	s.nextID++
	return s.newTask(s.nextID<<16, kind, inc)
}

//go:norace
func Start(t *Task) {
	if t == nil {
		return
	}
	S.park(t)
}

// PanicHook, if set, is asked about a panic that reached the top of a task. If
// it returns true the panic is considered handled (the harness turned it into
// a crash of the task's incarnation) and the task simply ends.
var PanicHook func(t *Task, r any) bool

// DetKey replaces values that Pebble derives from object addresses (R13 of the
// rewriter): a hash of the key and of a salt that is fixed for the run, so
// that repeated evaluations for one key agree, as they do for one address.
//
//go:norace
func DetKey(key []byte) uint64 {
	h := uint64(14695981039346656037)
	if s := S; s != nil {
		h ^= s.detSalt
	}
	for _, b := range key {
		h = (h ^ uint64(b)) * 1099511628211
	}
	return h * 0x9E3779B97F4A7C15
}

// Exit ends a task. It must be deferred directly (`defer simrt.Exit(t)`) so
// that it can recover a panic of the task body.
func Exit(t *Task) {
	if t == nil {
		return
	}
	s := S
	if r := recover(); r != nil {
		if s != nil && PanicHook != nil && PanicHook(t, r) {
			exit2(s, t)
			return
		}
		if s != nil {
			s.fail("panic", fmt.Sprintf("panic in task %d (%s): %v\n%s", t.ID, t.Kind, r, debug.Stack()))
		}
	}
	exit2(s, t)
}

//go:norace
func exit2(s *Sim, t *Task) {
	if s == nil {
		return
	}
	s.mu.Lock()
	t.st = stDone
	s.unlink(t)
	s.mu.Unlock()
}

//go:norace
func (s *Sim) fail(kind, msg string) {
	if s.failKind == "" {
		s.failKind, s.failMsg = kind, msg
	}
}

// Fail records a failure of the run (first one wins) and parks the caller
// forever. kind is a short class ("panic", "fatalf", "oracle:...").
//
//go:norace
func Fail(kind, msg string) {
	s := S
	if s == nil {
		panic(kind + ": " + msg)
	}
	s.fail(kind, msg)
	ParkForever()
}

// FailNoPark records a failure and returns (the caller unwinds itself).
//
//go:norace
func FailNoPark(kind, msg string) {
	if s := S; s != nil {
		s.fail(kind, msg)
	}
}

// ParkForever never returns: the task is removed from scheduling.
//
//go:norace
func ParkForever() {
	s := S
	t := s.cur
	t.st = stParked
	raceDisable()
	select {}
}

// Kill marks an incarnation dead. If the caller belongs to it, the caller must
// call ParkForever afterwards.
//
//go:norace
func Kill(inc *Inc) { inc.Dead = true }

// Go runs f as a new task of the current incarnation.
func Go(kind string, f func()) *Task {
	t := Spawn(kind)
	if t == nil {
		go f()
		return nil
	}
	go func() {
		Start(t)
		defer Exit(t)
		f()
	}()
	return t
}

// GoIn runs f as a new task of incarnation inc with tag.
func GoIn(kind string, inc *Inc, tag int, f func()) *Task {
	t := SpawnIn(kind, inc)
	t.Tag = tag
	go func() {
		Start(t)
		defer Exit(t)
		f()
	}()
	return t
}

// Done reports whether a task has finished.
//
//go:norace
func (t *Task) Done() bool { return t.st == stDone }

// Sleep sleeps on the fake clock.
//
//go:norace
func Sleep(d time.Duration) {
	tok := BeforeChanOp()
	time.Sleep(d)
	AfterChanOp(tok)
}

// AfterFunc is time.AfterFunc whose callback runs as a task.
func AfterFunc(d time.Duration, f func()) *time.Timer {
	s := S
	if s == nil || s.cur == nil {
		return time.AfterFunc(d, f)
	}
	s.nextID++
	id := s.nextID << 16
	inc := s.cur.Inc
	fires := uint64(0)
	return time.AfterFunc(d, func() {
		// Runs in a fresh runtime goroutine when the fake clock fires; nothing
		// else is running at that moment except other timer goroutines.
		if S != s {
			return
		}
		s.mu.Lock()
		fires++
		n := fires
		s.mu.Unlock()
		t := s.newTask(id|(n&0xffff), "timer", inc)
		raceDisable()
		select {
		case s.wake <- struct{}{}:
		default:
		}
		raceEnable()
		s.park(t)
		defer Exit(t)
		f()
	})
}

// Progress tells the deadlock watchdog that the workload made progress.
//
//go:norace
func Progress() {
	if s := S; s != nil {
		s.lastProgress = time.Now()
	}
}

// Result of a run.
type Result struct {
	FailKind string
	FailMsg  string
}

//go:norace
func (s *Sim) eligible(t *Task) bool {
	if t.st != stRunnable {
		return false
	}
	if t.Inc != nil && (t.Inc.Dead || t.Inc.Frozen) {
		return false
	}
	return true
}

//go:norace
func (s *Sim) starved(t *Task) bool {
	c := &s.Cfg
	return c.Policy == PolStarve && s.Steps >= c.StarveFrom && s.Steps < c.StarveTo && c.StarveMod > 0 && t.class%c.StarveMod == c.StarveRem
}

// pick chooses the next task among the eligible ones; nil if none.
//
//go:norace
func (s *Sim) pick() *Task {
	var cand [512]*Task
	n := 0
	for t := s.head; t != nil; t = t.next {
		if s.eligible(t) {
			if n < len(cand) {
				// insertion sort by ID (list is nearly sorted already)
				i := n
				for i > 0 && cand[i-1].ID > t.ID {
					cand[i] = cand[i-1]
					i--
				}
				cand[i] = t
				n++
			}
		}
	}
	if n == 0 {
		return nil
	}
	c := &s.Cfg
	switch c.Policy {
	case PolSticky:
		if s.last != nil && s.eligible(s.last) && s.sched.Float() < c.Sticky {
			return s.last
		}
		return cand[s.sched.IntN(n)]
	case PolPCT:
		for i := 0; i < c.PCTDepth && i < len(s.pctPoints); i++ {
			if s.pctPoints[i] == s.Steps && s.last != nil {
				s.lowPrio--
				s.last.prio = s.lowPrio
			}
		}
		best := cand[0]
		for i := 1; i < n; i++ {
			if cand[i].prio > best.prio {
				best = cand[i]
			}
		}
		return best
	case PolStarve:
		var ok [512]*Task
		m := 0
		for i := 0; i < n; i++ {
			if !s.starved(cand[i]) {
				ok[m] = cand[i]
				m++
			}
		}
		if m > 0 && s.sched.IntN(64) != 0 {
			return ok[s.sched.IntN(m)]
		}
		return cand[s.sched.IntN(n)]
	}
	return cand[s.sched.IntN(n)]
}

// Run executes root as the first task (in incarnation inc) and schedules until
// root returns or the run fails.
func (s *Sim) Run(inc *Inc, root func()) Result {
	S = s
	defer func() { S = nil }()
	s.lastProgress = time.Now()
	s.nextID++
	rt := s.newTask(s.nextID<<16, "root", inc)
	go func() {
		Start(rt)
		defer s.rootExit()
		defer Exit(rt)
		root()
	}()
	return s.loop()
}

//go:norace
func (s *Sim) rootExit() { s.rootDone = true }

//go:norace
func (s *Sim) loop() Result {
	raceDisable()
	defer raceEnable()
	for {
		synctest.Wait()
		s.mu.Lock()
		if c := s.cur; c != nil && c.st == stRunning {
			// Baton holder blocked somewhere we do not track.
			s.Untracked++
			c.st = stInChan
		}
		s.cur = nil
		s.epoch++
		s.mu.Unlock()
		if s.failKind != "" {
			return Result{s.failKind, s.failMsg}
		}
		if s.rootDone {
			return Result{}
		}
		if s.Monitor != nil {
			s.Monitor()
			if s.failKind != "" {
				return Result{s.failKind, s.failMsg}
			}
		}
		if s.Untracked > 0 {
			return Result{"tooling:untracked", "a task blocked outside the simulator's control"}
		}
		if s.Steps >= s.Cfg.MaxSteps {
			return Result{"stepcap", fmt.Sprintf("step cap %d reached (fake time since last progress %v)\n%s", s.Cfg.MaxSteps, time.Since(s.lastProgress), s.Dump())}
		}
		t := s.pick()
		if t == nil {
			// Idle: let the fake clock advance to the next timer.
			remain := s.Cfg.Horizon - time.Since(s.lastProgress)
			if remain <= 0 {
				return Result{"deadlock", "no progress for " + s.Cfg.Horizon.String() + " of simulated time\n" + s.Dump()}
			}
			raceEnable() // library code below must see its own synchronisation
			tm := time.NewTimer(remain)
			raceDisable()
			select {
			case <-s.wake:
				tm.Stop()
			case <-tm.C:
			}
			continue
		}
		if s.Steps&1023 == 0 && time.Since(s.lastProgress) > s.Cfg.Horizon {
			return Result{"deadlock", "no progress for " + s.Cfg.Horizon.String() + " of simulated time (busy)\n" + s.Dump()}
		}
		s.Steps++
		s.mix(t.ID)
		t.st = stRunning
		s.cur = t
		s.last = t
		t.resume <- struct{}{}
	}
}

// Dump lists live tasks and what they wait for.
func (s *Sim) Dump() string {
	var b strings.Builder
	names := [...]string{"runnable", "running", "blocked", "inchan", "done", "parked"}
	for t := s.head; t != nil; t = t.next {
		dead := ""
		if t.Inc != nil && t.Inc.Dead {
			continue
		}
		fmt.Fprintf(&b, "  task %d %s %s%s key=%x\n", t.ID>>16, t.Kind, names[t.st], dead, t.waitKey)
	}
	return b.String()
}

// LiveTasks counts live, non-root tasks of an incarnation.
//
//go:norace
func (s *Sim) LiveTasks(inc *Inc) int {
	n := 0
	for t := s.head; t != nil; t = t.next {
		if t.Inc == inc && t.st != stDone && t.Kind != "root" {
			n++
		}
	}
	return n
}

// LiveTaskKinds lists the kinds of live tasks of an incarnation.
func (s *Sim) LiveTaskKinds(inc *Inc) []string {
	var out []string
	for t := s.head; t != nil; t = t.next {
		if t.Inc == inc && t.st != stDone && t.Kind != "root" {
			out = append(out, t.Kind)
		}
	}
	return out
}

// RunEpochNow identifies the current run (0 outside a simulation); used by
// per-run pools.
//
//go:norace
func RunEpochNow() uint64 {
	if s := S; s != nil {
		return s.RunEpoch
	}
	return 0
}
