// Package simsync is a drop-in replacement for the subset of package sync that
// Pebble uses. Under a simulation blocking is cooperative: a task that cannot
// proceed gives the baton back to the simulator's scheduler. Outside a
// simulation every primitive falls back to the real one.
//
// The shim types wrap the real ones and have identical size and zero-value
// behaviour; waiters are kept out of line (on the simrt task), keyed by the
// object's address.
package simsync

import (
	"sync"
	"sync/atomic"
	"unsafe"

	"github.com/cockroachdb/pebble/verifsim/simrt"
)

type Locker = sync.Locker

type Mutex struct{ m sync.Mutex }

//go:norace
func (m *Mutex) Lock() {
	if !simrt.Active() {
		m.m.Lock()
		return
	}
	simrt.Yield("lock")
	for !m.m.TryLock() {
		simrt.Block(uintptr(unsafe.Pointer(m)))
	}
}

//go:norace
func (m *Mutex) TryLock() bool { return m.m.TryLock() }

//go:norace
func (m *Mutex) Unlock() {
	m.m.Unlock()
	if simrt.Active() {
		simrt.Wake(uintptr(unsafe.Pointer(m)))
		simrt.Yield("unlock")
	}
}

type RWMutex struct {
	m sync.RWMutex
}

//go:norace
func (m *RWMutex) Lock() {
	if !simrt.Active() {
		m.m.Lock()
		return
	}
	simrt.Yield("wlock")
	for !m.m.TryLock() {
		simrt.Block(uintptr(unsafe.Pointer(m)))
	}
}

//go:norace
func (m *RWMutex) TryLock() bool { return m.m.TryLock() }

//go:norace
func (m *RWMutex) Unlock() {
	m.m.Unlock()
	if simrt.Active() {
		simrt.Wake(uintptr(unsafe.Pointer(m)))
		simrt.Yield("wunlock")
	}
}

//go:norace
func (m *RWMutex) RLock() {
	if !simrt.Active() {
		m.m.RLock()
		return
	}
	simrt.Yield("rlock")
	for !m.m.TryRLock() {
		simrt.Block(uintptr(unsafe.Pointer(m)))
	}
}

//go:norace
func (m *RWMutex) TryRLock() bool { return m.m.TryRLock() }

//go:norace
func (m *RWMutex) RUnlock() {
	m.m.RUnlock()
	if simrt.Active() {
		simrt.Wake(uintptr(unsafe.Pointer(m)))
		simrt.Yield("runlock")
	}
}

type rlocker RWMutex

//go:norace
func (r *rlocker) Lock() { (*RWMutex)(r).RLock() }

//go:norace
func (r *rlocker) Unlock() { (*RWMutex)(r).RUnlock() }

//go:norace
func (m *RWMutex) RLocker() Locker { return (*rlocker)(m) }

// Cond mirrors sync.Cond, including the order of operations in Wait
// (register, L.Unlock, wait, L.Lock) that callers with custom Lockers rely on.
type Cond struct {
	L Locker

	real sync.Cond
}

//go:norace
func NewCond(l Locker) *Cond { return &Cond{L: l} }

//go:norace
func (c *Cond) Wait() {
	if !simrt.Active() {
		c.real.L = c.L
		c.real.Wait()
		return
	}
	key := uintptr(unsafe.Pointer(c))
	simrt.CondRegister(key)
	c.L.Unlock()
	simrt.CondWait(key)
	c.L.Lock()
}

//go:norace
func (c *Cond) Signal() {
	if !simrt.Active() {
		c.real.Signal()
		return
	}
	simrt.CondNotify(uintptr(unsafe.Pointer(c)), false)
	simrt.Yield("signal")
}

//go:norace
func (c *Cond) Broadcast() {
	if !simrt.Active() {
		c.real.Broadcast()
		return
	}
	simrt.CondNotify(uintptr(unsafe.Pointer(c)), true)
	simrt.Yield("broadcast")
}

// WaitGroup counts with an atomic and blocks cooperatively. A WaitGroup that
// was first used outside a simulation keeps using the real implementation.
type WaitGroup struct {
	real sync.WaitGroup
	n    atomic.Int64
	mode atomic.Int32 // 0 unset, 1 real, 2 sim
}

// WGZeroHook, if set by a harness, is called synchronously (by the task whose
// Done brought the counter to zero) at the instant a wait group is released.
var WGZeroHook func(w *WaitGroup)

//go:norace
func (w *WaitGroup) sim() bool {
	m := w.mode.Load()
	if m == 0 {
		if simrt.Active() {
			m = 2
		} else {
			m = 1
		}
		w.mode.Store(m)
	}
	return m == 2
}

//go:norace
func (w *WaitGroup) Add(d int) {
	if !w.sim() {
		w.real.Add(d)
		return
	}
	n := w.n.Add(int64(d))
	if n < 0 {
		panic("simsync: negative WaitGroup counter")
	}
	if n == 0 {
		if h := WGZeroHook; h != nil {
			h(w)
		}
		w.mode.Store(0)
	}
	if d < 0 {
		// Done happens-before the Wait it unblocks (re-emitted for the race
		// detector after the last write this call makes to the object).
		raceReleaseMerge(unsafe.Pointer(w))
	}
	if n == 0 {
		simrt.Wake(uintptr(unsafe.Pointer(w)))
	}
	if d < 0 {
		simrt.Yield("wgdone")
	}
}

//go:norace
func (w *WaitGroup) Done() { w.Add(-1) }

//go:norace
func (w *WaitGroup) Wait() {
	if w.mode.Load() == 1 {
		w.real.Wait()
		return
	}
	if !simrt.Active() {
		// Sim-mode wait group waited on from outside the simulation: spin.
		for w.n.Load() > 0 {
		}
		raceAcquire(unsafe.Pointer(w))
		return
	}
	simrt.Yield("wgwait")
	for w.n.Load() > 0 {
		simrt.Block(uintptr(unsafe.Pointer(w)))
	}
	raceAcquire(unsafe.Pointer(w))
}

func (w *WaitGroup) Go(f func()) {
	w.Add(1)
	simrt.Go("wg.Go", func() {
		defer w.Done()
		f()
	})
}

type Once struct {
	done atomic.Uint32
	m    Mutex
}

func (o *Once) Do(f func()) {
	if o.done.Load() == 0 {
		o.doSlow(f)
	}
}

func (o *Once) doSlow(f func()) {
	o.m.Lock()
	defer o.m.Unlock()
	if o.done.Load() == 0 {
		defer o.done.Store(1)
		f()
	}
}

func OnceFunc(f func()) func() {
	var o Once
	return func() { o.Do(f) }
}

func OnceValue[T any](f func() T) func() T {
	var o Once
	var v T
	return func() T { o.Do(func() { v = f() }); return v }
}

func OnceValues[T1, T2 any](f func() (T1, T2)) func() (T1, T2) {
	var o Once
	var v1 T1
	var v2 T2
	return func() (T1, T2) { o.Do(func() { v1, v2 = f() }); return v1, v2 }
}

// Pool is a deterministic, per-run free list with the sync.Pool API. Items put
// during one simulation run never reach another run (a pooled object may hold
// channels or timers of its synctest bubble).
type Pool struct {
	New func() any

	real  sync.Pool
	epoch uint64
	n     int
	items [8]any
}

//go:norace
func (p *Pool) Get() any {
	ep := simrt.RunEpochNow()
	if ep == 0 {
		if v := p.real.Get(); v != nil {
			return v
		}
		if p.New != nil {
			return p.New()
		}
		return nil
	}
	if p.epoch != ep {
		p.reset(ep)
	}
	if p.n > 0 {
		p.n--
		v := p.items[p.n]
		p.items[p.n] = nil
		raceAcquire(unsafe.Pointer(p))
		return v
	}
	if p.New != nil {
		return p.New()
	}
	return nil
}

//go:norace
func (p *Pool) reset(ep uint64) {
	for i := range p.items {
		p.items[i] = nil
	}
	p.n = 0
	p.epoch = ep
}

//go:norace
func (p *Pool) Put(x any) {
	if x == nil {
		return
	}
	ep := simrt.RunEpochNow()
	if ep == 0 {
		p.real.Put(x)
		return
	}
	if p.epoch != ep {
		p.reset(ep)
	}
	if p.n < len(p.items) {
		raceReleaseMerge(unsafe.Pointer(p))
		p.items[p.n] = x
		p.n++
	}
}

// Map is an insertion-ordered map with the sync.Map API: Range order is
// deterministic. A real mutex (never held across a yield) gives the race
// detector the same edges a sync.Map would.
type Map struct {
	mu    sync.Mutex
	m     map[any]*mapEntry
	order []*mapEntry
}

type mapEntry struct {
	k, v    any
	deleted bool
}

func (m *Map) Load(key any) (value any, ok bool) {
	m.mu.Lock()
	defer m.mu.Unlock()
	if e, ok := m.m[key]; ok {
		return e.v, true
	}
	return nil, false
}

func (m *Map) Store(key, value any) {
	m.mu.Lock()
	defer m.mu.Unlock()
	m.storeLocked(key, value)
}

func (m *Map) storeLocked(key, value any) {
	if m.m == nil {
		m.m = map[any]*mapEntry{}
	}
	if e, ok := m.m[key]; ok {
		e.v = value
		return
	}
	e := &mapEntry{k: key, v: value}
	m.m[key] = e
	m.order = append(m.order, e)
}

func (m *Map) LoadOrStore(key, value any) (actual any, loaded bool) {
	m.mu.Lock()
	defer m.mu.Unlock()
	if e, ok := m.m[key]; ok {
		return e.v, true
	}
	m.storeLocked(key, value)
	return value, false
}

func (m *Map) LoadAndDelete(key any) (value any, loaded bool) {
	m.mu.Lock()
	defer m.mu.Unlock()
	e, ok := m.m[key]
	if !ok {
		return nil, false
	}
	e.deleted = true
	delete(m.m, key)
	m.compact()
	return e.v, true
}

func (m *Map) compact() {
	if len(m.order) > 32 && len(m.order) > 2*len(m.m) {
		out := m.order[:0]
		for _, e := range m.order {
			if !e.deleted {
				out = append(out, e)
			}
		}
		m.order = out
	}
}

func (m *Map) Delete(key any) { m.LoadAndDelete(key) }

func (m *Map) Swap(key, value any) (previous any, loaded bool) {
	m.mu.Lock()
	defer m.mu.Unlock()
	if e, ok := m.m[key]; ok {
		previous, loaded = e.v, true
	}
	m.storeLocked(key, value)
	return
}

func (m *Map) CompareAndSwap(key, old, new any) bool {
	m.mu.Lock()
	defer m.mu.Unlock()
	if e, ok := m.m[key]; ok && e.v == old {
		e.v = new
		return true
	}
	return false
}

func (m *Map) CompareAndDelete(key, old any) bool {
	m.mu.Lock()
	defer m.mu.Unlock()
	if e, ok := m.m[key]; ok && e.v == old {
		e.deleted = true
		delete(m.m, key)
		return true
	}
	return false
}

func (m *Map) Range(f func(key, value any) bool) {
	m.mu.Lock()
	snap := make([]*mapEntry, 0, len(m.order))
	for _, e := range m.order {
		if !e.deleted {
			snap = append(snap, e)
		}
	}
	m.mu.Unlock()
	for _, e := range snap {
		m.mu.Lock()
		del, v := e.deleted, e.v
		m.mu.Unlock()
		if del {
			continue
		}
		if !f(e.k, v) {
			return
		}
	}
}

func (m *Map) Clear() {
	m.mu.Lock()
	defer m.mu.Unlock()
	for _, e := range m.order {
		e.deleted = true
	}
	m.m = nil
	m.order = nil
}
