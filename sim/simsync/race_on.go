//go:build race

package simsync

import (
	"runtime"
	"unsafe"
)

func raceAcquire(p unsafe.Pointer)      { runtime.RaceAcquire(p) }
func raceReleaseMerge(p unsafe.Pointer) { runtime.RaceReleaseMerge(p) }
