//go:build !race

package simsync

import "unsafe"

func raceAcquire(p unsafe.Pointer)      {}
func raceReleaseMerge(p unsafe.Pointer) {}
