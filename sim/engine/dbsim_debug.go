package engine

import (
	"bytes"
	"fmt"
	"io"
	"os"
	"strings"

	"github.com/cockroachdb/pebble/internal/base"
	"github.com/cockroachdb/pebble/record"
)

// debugDumpWALs prints, for VERIF_DEBUG runs, the record structure of every
// WAL file present when an Open failed.
func debugDumpWALs(h *dbHarness) {
	if m, ok := h.durableMinUnflushedLog(); ok {
		fmt.Fprintf(os.Stderr, "manifest min unflushed log: %d\n", m)
	}
	for _, n := range h.disk.ListNoFault("db") {
		if !strings.HasSuffix(n, ".log") {
			continue
		}
		data, err := h.disk.ReadFile("db/" + n)
		if err != nil {
			continue
		}
		var num uint64
		fmt.Sscanf(n, "%d.log", &num)
		rr := record.NewReader(bytes.NewReader(data), base.DiskFileNum(num))
		recs := 0
		var last error
		for {
			r, err := rr.Next()
			if err != nil {
				last = err
				break
			}
			b, err := io.ReadAll(r)
			if err != nil {
				last = err
				break
			}
			recs++
			fmt.Fprintf(os.Stderr, "    rec %d len %d\n", recs, len(b))
		}
		fmt.Fprintf(os.Stderr, "  %s: %d bytes, %d records, end=%v offset=%d\n", n, len(data), recs, last, rr.Offset())
	}
}

type debugLogger struct{ h *dbHarness }

func (l debugLogger) Infof(format string, args ...interface{}) {
	fmt.Fprintf(os.Stderr, "[seg %d] %s\n", l.h.segment, fmt.Sprintf(format, args...))
}
func (l debugLogger) Errorf(format string, args ...interface{}) { l.Infof(format, args...) }
func (l debugLogger) Fatalf(format string, args ...interface{}) { l.Infof(format, args...) }
