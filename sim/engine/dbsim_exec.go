package engine

import (
	"bytes"
	"context"
	"encoding/json"
	"fmt"
	"io"
	"os"
	"runtime/debug"
	"sort"
	"strings"
	"testing"
	"time"

	"github.com/cockroachdb/errors"
	"github.com/cockroachdb/pebble"
	"github.com/cockroachdb/pebble/objstorage/objstorageprovider"
	"github.com/cockroachdb/pebble/objstorage/remote"
	"github.com/cockroachdb/pebble/sstable"
	"github.com/cockroachdb/pebble/sstable/block"
	"github.com/cockroachdb/pebble/sstable/tablefilters/bloom"
	"github.com/cockroachdb/pebble/verifsim/kvmodel"
	"github.com/cockroachdb/pebble/verifsim/simfs"
	"github.com/cockroachdb/pebble/verifsim/simrt"
	"github.com/cockroachdb/pebble/verifsim/simsync"
	"github.com/cockroachdb/pebble/vfs"
	"github.com/cockroachdb/pebble/wal"
)

var (
	fmvMin    = int(pebble.FormatMinSupported)
	fmvNewest = int(pebble.FormatNewest)
)

type dbEngine struct{}

func init() { Register("dbsim", &dbEngine{}) }

// groupInfo is what the harness remembers about one committed (or attempted)
// group, for the crash oracles.
type groupInfo struct {
	g        *kvmodel.Group
	pos      int  // position in the model after commit (0 = not committed)
	sync     bool // acknowledged as durable when the call returned
	startIdx int  // disk log length when the call started
	ackIdx   int  // disk log length when the call returned (-1 = never returned)
	client   int
}

type dbHarness struct {
	t    *testing.T
	plan *Plan
	res  *Result
	cfg  DBCfg
	ops  []DBOp
	sim  *simrt.Sim
	r    simrt.Rng // harness-level choices (which extra keys to read, ...)

	disk *simfs.Disk
	db   *pebble.DB
	opts *pebble.Options
	inc  *simrt.Inc

	model      *kvmodel.Model
	groups     []*groupInfo
	nextG      int
	pc         int
	rootKey    int
	driverDone bool
	segment    int
	nExt       int

	pfx, sfx []string

	bgErrors []string
	stat     map[string]int64

	snaps   map[int]*snapObj
	iters   map[int]*iterObj
	batches map[int]*batchObj

	conc        *concState
	debugLog    []string
	evSeq       int
	ingestSeq   uint64
	nCkpt       int
	fmvFloors   []fmvFloor // completed ratchets of the current segment
	fmvSegStart int        // version at the start of the current segment
	fmvCarried  int        // version a previous incarnation had reported (so: durable before this segment's first mutation)
	fmvMax      int        // highest version ever requested
	durScans    []durScan  // OnlyReadGuaranteedDurable scans of the current segment
	extraForks  []int      // crash-fork points requested by monitors (current segment)
	levelsEach  bool
	closeEach   bool

	// crash machinery
	durs       []durPoint
	known5_1   bool
	forkMode   string // "", "sample", "all"
	forkN      int
	pendingCtx *crashCtx       // context of the crash being recovered from
	pendSurv   *simfs.Survival // survival spec of the armed main-line crash
	crashOpen  int             // >0: crash the next incarnation after this many mutations (crash during recovery)

	// I/O fault injection (C43)
	faultsArmed    bool
	dynFaults      []*simfs.Fault // one-shot rules armed by "armfault" ops
	faultsStopped  bool
	rotInc         *simrt.Inc // side incarnation reading a damaged copy (C27)
	delays         int
	extStore       remote.Storage // external object store (survives crashes: it is remote)
	faultAnnounced bool
	moveFaultLog   int  // disk log length right after a failed dirsync inside Marker.Move under UpdateVersionLocked (0: none)
	dyingWindow    bool // the previous incarnation changed the disk while such a panic was unwinding
	opening        bool // pebble.Open of the current incarnation is running
	openFailed     bool // ... has returned an error
}

func (h *dbHarness) count(k string, n int64) { h.stat[k] += n }

func (e *dbEngine) Execute(t *testing.T, plan *Plan, res *Result) {
	h := &dbHarness{t: t, plan: plan, res: res, stat: res.Stats}
	if err := json.Unmarshal(plan.Cfg, &h.cfg); err != nil {
		res.Status, res.Msg = "tooling", "bad cfg: "+err.Error()
		return
	}
	if err := json.Unmarshal(plan.Ops, &h.ops); err != nil {
		res.Status, res.Msg = "tooling", "bad ops: "+err.Error()
		return
	}
	cfg := plan.Sched.simCfg()
	cfg.Trace = traceFile != ""
	cfg.TraceAll = traceFile != ""
	if plan.Profile == "corrupt" {
		// A manual compaction over a damaged table can end in an endless
		// re-pick loop; such a run is abandoned as inconclusive early.
		cfg.MaxSteps = 600_000
	}
	h.sim = simrt.New(plan.Sched.Seed, cfg)
	simrt.PanicHook = h.onPanic
	h.r = simrt.NewRng(plan.Seed, 2000)
	h.model = kvmodel.New()
	g := &gen{cfg: &h.cfg}
	g.keyspace()
	h.pfx, h.sfx = g.pfx, g.sfx
	h.forkMode, h.forkN = forkPolicy(plan.Profile, plan.Tier)
	h.levelsEach = plan.Profile == "levels"
	h.closeEach = plan.Profile == "close"
	start := time.Now()
	r := h.sim.Run(&simrt.Inc{ID: 0}, h.root)
	res.Stats["fake_ns"] = int64(time.Since(start))
	finish(res, r, h.sim)
	if h.disk != nil {
		h.harvestFaultStats(h.disk)
		for k := simfs.OpKind(0); int(k) < len(h.disk.St.Ops); k++ {
			if n := h.disk.St.Ops[k]; n > 0 {
				res.Stats["fs."+k.String()] += int64(n)
			}
		}
	}
	if h.conc == nil {
		// Concurrent profiles keep their history in h.conc, not in h.model:
		// verifyConcurrent has already recorded the number of committed groups.
		res.Stats["groups"] = int64(h.model.Len())
	}
	res.Stats["ops"] = int64(h.pc)
	res.Stats["fs.delays"] += int64(h.delays)
	if traceFile != "" {
		writeTrace(h.sim)
	}
	// A run is non-trivial when background work actually overlapped the client.
	res.Nontrivial = res.Stats["ev.flush"] > 0 && res.Stats["groups"] > 5
	switch plan.Profile {
	case "iofault":
		res.Nontrivial = res.Nontrivial && res.Stats["faults_fired"] > 0
	case "failover":
		res.Nontrivial = res.Nontrivial && (res.Stats["faults_fired"] > 0)
	case "corrupt":
		res.Nontrivial = res.Stats["rot.variants"] > 0 && res.Stats["groups"] > 5
	}
	res.CaseHash = fmt.Sprintf("%016x", caseHash(plan))
	res.Sample = h.sample()
}

func (h *dbHarness) sample() any {
	n := len(h.ops)
	if n > 6 {
		n = 6
	}
	return map[string]any{"cfg": h.cfg, "sched": h.plan.Sched, "first_ops": h.ops[:n], "n_ops": len(h.ops)}
}

func caseHash(p *Plan) uint64 {
	h := uint64(14695981039346656037)
	for _, b := range [][]byte{p.Cfg, p.Ops} {
		for _, c := range b {
			h ^= uint64(c)
			h *= 1099511628211
		}
	}
	return h
}

type simLogger struct{ h *dbHarness }

func (l simLogger) Infof(format string, args ...interface{}) {}
func (l simLogger) Errorf(format string, args ...interface{}) {
	l.h.count("log.errorf", 1)
}
func (l simLogger) Fatalf(format string, args ...interface{}) {
	msg := fmt.Sprintf(format, args...)
	inc := simrt.CurInc()
	if os.Getenv("VERIF_DEBUG") != "" {
		fmt.Fprintf(os.Stderr, "[seg %d] Fatalf (incarnation %v, fault fired %v): %s\n", l.h.segment, inc != nil, inc != nil && inc.FaultFired, msg)
	}
	if inc != nil && inc == l.h.rotInc {
		// Pebble gives up on a damaged file: loud, not silent
		l.h.count("rot.fatalf", 1)
		simrt.Kill(inc)
		simrt.Wake(rotWaitKey)
		simrt.ParkForever()
	}
	if inc != nil && inc.FaultFired {
		// Unrecoverable I/O outcome after an injected fault: a process crash.
		l.h.count("fatalf.crash", 1)
		l.h.crashHere()
	}
	simrt.Fail("fatalf", "Logger.Fatalf in a run without injected I/O faults: "+msg)
}

// crashHere kills the current incarnation at this instant and never returns.
func (h *dbHarness) crashHere() {
	simrt.Kill(h.inc)
	simrt.Wake(uintptr(h.rootKeyAddr()))
	simrt.ParkForever()
}

func (h *dbHarness) ctxBg() context.Context { return context.Background() }

func (h *dbHarness) rootKeyAddr() uintptr { return uintptr(0x1000 + h.rootKey) }

func (h *dbHarness) makeOptions() *pebble.Options { return h.makeOptionsOn(h.disk) }

func (h *dbHarness) makeOptionsOn(disk *simfs.Disk) *pebble.Options {
	c := &h.cfg
	o := &pebble.Options{
		FS:                          disk,
		Comparer:                    kvmodel.Cmp,
		Logger:                      simLogger{h},
		MemTableSize:                uint64(c.MemTableSize),
		MemTableStopWritesThreshold: c.MemTableStop,
		L0CompactionThreshold:       c.L0CompactionThresh,
		L0StopWritesThreshold:       c.L0StopWrites,
		LBaseMaxBytes:               c.LBaseMaxBytes,
		MaxManifestFileSize:         c.MaxManifestFileSize,
		CacheSize:                   c.CacheSize,
		MaxOpenFiles:                c.MaxOpenFiles,
		DisableWAL:                  c.DisableWAL,
		BytesPerSync:                c.BytesPerSync,
		WALBytesPerSync:             c.WALBytesPerSync,
		DisableAutomaticCompactions: c.DisableAutoCompact,
		DisableTableStats:           c.DisableTableStats,
		FlushSplitBytes:             c.FlushSplitBytes,
	}
	if c.FMV != 0 {
		o.FormatMajorVersion = pebble.FormatMajorVersion(c.FMV)
	} else {
		o.FormatMajorVersion = pebble.FormatNewest
	}
	n := c.MaxCompactions
	o.CompactionConcurrencyRange = func() (int, int) { return 1, n }
	for i := range o.TargetFileSizes {
		o.TargetFileSizes[i] = c.TargetFileSize << uint(min(i, 3))
	}
	for i := range o.Levels {
		l := &o.Levels[i]
		l.BlockSize = c.BlockSize
		l.IndexBlockSize = c.IndexBlockSize
		switch c.Compression {
		case "none":
			l.Compression = func() *sstable.CompressionProfile { return block.NoCompression }
		case "snappy":
			l.Compression = func() *sstable.CompressionProfile { return block.SnappyCompression }
		case "zstd":
			l.Compression = func() *sstable.CompressionProfile { return block.ZstdCompression }
		case "minlz":
			l.Compression = func() *sstable.CompressionProfile { return block.MinLZCompression }
		}
		if c.Filter {
			l.TableFilterPolicy = func() pebble.TableFilterPolicy { return bloom.FilterPolicy(10) }
		}
	}
	if !c.WALRecycle {
		o.MemTableStopWritesThreshold = max(2, c.MemTableStop)
	}
	if c.ValueSep {
		min := c.ValueSepMin
		o.ValueSeparationPolicy = func() pebble.ValueSeparationPolicy {
			return pebble.ValueSeparationPolicy{Enabled: true, MinimumSize: min, MinimumMVCCGarbageSize: min, MaxBlobReferenceDepth: 5, RewriteMinimumAge: 0, GarbageRatioLowPriority: 0.1, GarbageRatioHighPriority: 0.3}
		}
	}
	if c.ExtIngest {
		if h.extStore == nil {
			h.extStore = remote.NewInMem()
		}
		o.RemoteStorage = remote.MakeSimpleFactory(map[remote.Locator]remote.Storage{remote.MakeLocator("ext"): h.extStore})
	}
	if c.WALFailover {
		fo := &pebble.WALFailoverOptions{Secondary: wal.Dir{FS: disk, Dirname: "wal2"}}
		thr := time.Duration(c.FailoverThreshUs) * time.Microsecond
		fo.UnhealthySamplingInterval = thr / 4
		fo.UnhealthyOperationLatencyThreshold = func() (time.Duration, bool) { return thr, true }
		fo.PrimaryDirProbeInterval = 5 * thr
		fo.HealthyProbeLatencyThreshold = thr / 2
		fo.HealthyInterval = 20 * thr
		fo.ElevatedWriteStallThresholdLag = 50 * thr
		o.WALFailover = fo
	}
	if c.WALMinSyncUs > 0 {
		d := time.Duration(c.WALMinSyncUs) * time.Microsecond
		o.WALMinSyncInterval = func() time.Duration { return d }
	}
	if !c.ReadCompactions {
		o.ReadSamplingMultiplier = -1
	} else {
		o.ReadCompactionRate = 1
		o.ReadSamplingMultiplier = 1
	}
	if !c.DeletePacing {
		o.DeletionPacing.BaselineRate = nil
	}
	if c.BlockPropCollector {
		o.BlockPropertyCollectors = []func() pebble.BlockPropertyCollector{sstable.NewTestKeysBlockPropertyCollector}
	}
	if h.levelsEach {
		o.DebugCheck = pebble.DebugCheckLevels
	}
	disk.ShuffleList = c.ShuffleList
	o.EventListener = h.listener()
	if os.Getenv("VERIF_DEBUG") == "2" {
		l := pebble.TeeEventListener(*o.EventListener, pebble.MakeLoggingEventListener(debugLogger{h}))
		o.EventListener = &l
		simfs.DebugFaults = func(s string) {
			fmt.Fprintf(os.Stderr, "[seg %d] %s\n", h.segment, s)
			if os.Getenv("VERIF_DEBUG_STACKS") != "" {
				fmt.Fprintf(os.Stderr, "%s\n", debug.Stack())
			}
		}
	}
	return o
}

func (h *dbHarness) listener() *pebble.EventListener {
	return &pebble.EventListener{
		BackgroundError: func(err error) {
			h.count("ev.bgerror", 1)
			if os.Getenv("VERIF_DEBUG") != "" {
				fmt.Fprintf(os.Stderr, "background error (segment %d, opening=%v): %v\n", h.segment, h.opening, err)
			}
			if len(h.bgErrors) < 8 {
				h.bgErrors = append(h.bgErrors, err.Error())
			}
		},
		FlushEnd: func(info pebble.FlushInfo) {
			h.count("ev.flush", 1)
			if info.Ingest {
				h.count("ev.flush.ingest", 1)
			}
		},
		CompactionEnd: func(info pebble.CompactionInfo) {
			h.count("ev.compaction", 1)
			h.count("ev.compaction."+strings.ReplaceAll(info.Reason, " ", "_"), 1)
		},
		ManifestCreated: func(pebble.ManifestCreateInfo) { h.count("ev.manifest_created", 1) },
		TableIngested: func(info pebble.TableIngestInfo) {
			h.count("ev.ingest", 1)
			h.ingestSeq = uint64(info.GlobalSeqNum)
		},
		WALCreated: func(info pebble.WALCreateInfo) {
			h.count("ev.wal_created", 1)
			if info.RecycledFileNum != 0 {
				h.count("ev.wal_recycled", 1)
			}
		},
		WALDeleted:      func(pebble.WALDeleteInfo) { h.count("ev.wal_deleted", 1) },
		TableDeleted:    func(pebble.TableDeleteInfo) { h.count("ev.table_deleted", 1) },
		WriteStallBegin: func(pebble.WriteStallBeginInfo) { h.count("ev.write_stall", 1) },
		FormatUpgrade:   func(pebble.FormatMajorVersion) { h.count("ev.format_upgrade", 1) },
		DataCorruption:  func(pebble.DataCorruptionInfo) { h.count("ev.data_corruption", 1) },
		BlobFileCreated: func(pebble.BlobFileCreateInfo) { h.count("ev.blob_created", 1) },
	}
}

// root is the run's root task: it belongs to incarnation 0, which never dies,
// and starts one incarnation of the simulated process after the other.
func (h *dbHarness) root() {
	h.disk = simfs.New("disk", h.plan.Seed)
	if len(h.plan.Faults) > 0 && !h.faultProfile() {
		h.disk.SetFaults(h.plan.Faults)
	}
	for {
		h.segment++
		h.snaps, h.iters, h.batches = map[int]*snapObj{}, map[int]*iterObj{}, map[int]*batchObj{}
		inc := &simrt.Inc{ID: h.segment}
		h.inc = inc
		h.driverDone = false
		h.disk.OnCrash = func() { simrt.Wake(h.rootKeyAddr()) }
		h.disk.OnFault = func() {
			if !h.faultAnnounced {
				// for the driver: should this process die of a runtime fatal
				// error (a deferred Unlock during a panic, say) it was after
				// an injected fault, i.e. fail-stop, not tooling trouble
				h.faultAnnounced = true
				fmt.Fprintln(os.Stderr, "VERIF: injected fault fired")
			}
		}
		h.moveFaultLog = 0
		h.disk.OnFaultOp = func(kind simfs.OpKind, p string) {
			if kind != simfs.OpSyncDir {
				return
			}
			if st := string(debug.Stack()); strings.Contains(st, "atomicfs.(*Marker).Move") && strings.Contains(st, "UpdateVersionLocked") {
				// Marker.Move panics on this error (documented fail-stop) in the
				// middle of a version update; see the use of moveFaultLog
				h.moveFaultLog = h.disk.LogLen() + 1
			}
		}
		if h.crashOpen > 0 {
			h.disk.CrashAt = h.crashOpen
			h.crashOpen = 0
		}
		simrt.GoIn("driver", inc, 0, func() {
			h.drive()
			h.driverDone = true
			simrt.Wake(h.rootKeyAddr())
		})
		for !h.driverDone && !inc.Dead {
			simrt.Block(h.rootKeyAddr())
		}
		crashed := inc.Dead
		// Freeze the incarnation's tasks (a cleanly finished driver has none
		// left; a crashed one is dead anyway) and verify crash forks of this
		// segment's disk history.
		if h.forkMode != "" && h.pendingCtx == nil {
			limit := h.disk.LogLen()
			idx := h.pickForkIndices(h.forkN, h.forkMode == "all")
			var use []int
			for _, k := range idx {
				if k <= limit {
					use = append(use, k)
				}
			}
			h.runForks(use, h.plan.Tier == "thorough")
		}
		if !crashed {
			return
		}
		h.count("crashes", 1)
		if h.moveFaultLog > 0 && h.disk.LogLen() >= h.moveFaultLog {
			// Between the failed directory sync inside Marker.Move (whose panic
			// unwinds through UpdateVersionLocked, releasing the manifest lock
			// with the version set half updated) and the death of the process,
			// other jobs of this incarnation changed the disk.
			h.dyingWindow = true
			h.count("failstop.disk_mutations_while_marker_move_panic_unwinds", 1)
		}
		// Main-line crash: continue on a crash image of the disk as it is now.
		if h.pendingCtx == nil {
			h.pendingCtx = h.crashCtxAt(h.disk.LogLen())
		}
		spec := simfs.Survival{Mode: "none"}
		if h.pendSurv != nil {
			spec = *h.pendSurv
		}
		h.harvestFaultStats(h.disk)
		h.disk = h.disk.CrashImage(spec)
		if !h.faultProfile() && len(h.allFaults()) > 0 {
			// the devices keep misbehaving across the restart (spent rules stay spent)
			h.disk.SetFaults(h.allFaults())
		}
		h.faultsArmed = false
		h.db = nil
		if h.pc >= len(h.ops) {
			// still verify that the image recovers
			h.ops = append(h.ops, DBOp{K: "scan"})
		}
	}
}

// drive runs one incarnation: open, execute ops, close.
func (h *dbHarness) drive() {
	h.opts = h.makeOptions()
	h.opts.EnsureDefaults()
	if h.faultProfile() && h.segment > 1 && h.r.IntN(2) == 0 {
		// recovery itself runs under the remaining fault rules
		h.armFaults()
	}
	h.opening, h.openFailed = true, false
	db, err := pebble.Open("db", h.opts)
	h.opening, h.openFailed = false, err != nil
	if err != nil {
		if os.Getenv("VERIF_DEBUG") != "" {
			fmt.Fprintf(os.Stderr, "Open failed in segment %d: %v\nfiles:", h.segment, err)
			for _, n := range h.disk.ListNoFault("db") {
				if data, rerr := h.disk.ReadFile("db/" + n); rerr == nil {
					fmt.Fprintf(os.Stderr, " %s(%d)", n, len(data))
				}
			}
			fmt.Fprintln(os.Stderr)
			debugDumpWALs(h)
		}
		if h.dyingWindow && strings.Contains(err.Error(), "TableBacking for virtual sstable must not be nil") {
			// recorded finding (KNOWN_FINDINGS.jsonl, DESIGN.md 12.4): a version
			// edit written by another job while a Marker.Move panic was
			// unwinding lacks a virtual backing
			h.addKnown("C43:version-edit-persisted-while-marker-move-panic-unwinds")
			h.count("err.open.known", 1)
			return
		}
		if h.pendingCtx != nil && !h.inc.FaultFired {
			Violation("recovery", "Open failed after a crash whose only fault is loss of unsynced data: %v", err)
		}
		h.opErr("open", err)
		if h.faultProfile() && h.inc.FaultFired {
			// a failed recovery is one more process exit; the rules' counts
			// are finite, so this ends
			h.count("fault.open_failed", 1)
			h.crashHere()
		}
		return
	}
	h.db = db
	h.dyingWindow = false
	if h.plan.Profile == "files" {
		h.disk.OnRemove = h.onRemove
	}
	h.fmvFloors, h.durScans, h.extraForks = nil, nil, nil
	if v := int(db.FormatMajorVersion()); true {
		if v < h.fmvSegStart && h.segment > 1 {
			Violation("fmv", "format major version went from %d to %d across a crash/reopen", h.fmvSegStart, v)
		}
		// What the previous incarnations had reported was durable before this
		// incarnation's first mutation; what this Open reports may be the
		// result of a ratchet performed by this very Open (a store whose
		// creation was cut short by an injected error, for example).
		h.fmvCarried = h.fmvSegStart
		h.fmvSegStart = v
		if v > h.fmvMax {
			h.fmvMax = v
		}
	}
	if h.pendingCtx != nil {
		resume := h.suspendFaults()
		h.checkRecovered()
		resume()
		if h.plan.Profile == "files" {
			h.checkNoDeadFiles("after crash recovery")
		}
	}
	h.armFaults()
	if h.cfg.Clients > 1 {
		h.driveConcurrent()
		h.closeDB()
		return
	}
	for h.pc < len(h.ops) {
		op := &h.ops[h.pc]
		h.pc++
		h.exec(op)
		h.noteUndurableVersion()
		if h.levelsEach && h.db != nil {
			h.checkLevels("after " + op.K)
		}
		simrt.Progress()
	}
	h.closeDB()
}

// checkRecovered matches the state recovered after a main-line crash and
// makes it the new baseline.
func (h *dbHarness) checkRecovered() {
	c := h.pendingCtx
	pts, spans, err := readAll(h.db)
	if err != nil {
		if h.inc != nil && h.inc.FaultFired {
			// Recovery itself ran under the remaining fault rules and an injected
			// error was latched (the file cache remembers a failed table open,
			// for instance): the read fails although injection is suspended
			// now. Nothing wrong was returned; the process is failed once more
			// and the next incarnation is judged with the same expectations.
			h.count("fault.unreadable_after_recovery", 1)
			h.crashHere()
		}
		Violation("recovery", "reading the recovered DB failed: %v", err)
	}
	m, desc := h.matchRecovered(c, pts, spans)
	if m == nil {
		Violation("recovery", "main-line crash (segment %d): %s", h.segment-1, desc)
	}
	h.noteMatch(m, "main-line crash")
	h.count("img.mainline", 1)
	h.rebase(m, c.inflight)
	h.pendingCtx = nil
	h.pendSurv = nil
}

func (h *dbHarness) closeDB() (ok bool) {
	if h.db == nil {
		return true
	}
	h.closeAllReaders()
	if h.plan.Profile == "files" {
		h.checkNoDeadFiles("before Close")
	}
	if h.cfg.WALFailover {
		m := h.db.Metrics()
		h.count("probe.failover_dir_switches", m.WAL.Failover.DirSwitchCount)
		if m.WAL.Failover.DirSwitchCount > 0 {
			h.count("probe.failover_incarnations_with_switch", 1)
		}
	}
	ok = true
	if err := h.db.Close(); err != nil {
		h.opErr("close", err)
		ok = false
	}
	h.db = nil
	if h.closeEach {
		h.checkClosed("after Close")
	}
	return ok
}

// opErr handles an error returned by a DB operation. In a run without
// injected faults every error is a violation.
func (h *dbHarness) opErr(what string, err error) {
	if h.errorsTolerated() {
		h.count("err."+what, 1)
		return
	}
	Violation("unexpected-error", "%s failed in a fault-free run: %v", what, err)
}

// ---- op execution ----

func (h *dbHarness) exec(op *DBOp) {
	h.count("op."+op.K, 1)
	switch op.K {
	case "batch":
		h.execBatch(op)
	case "ingest", "ingestexcise":
		h.execIngest(op)
	case "excise":
		h.execExcise(op)
	case "flush":
		pos := h.model.Len()
		if err := h.db.Flush(); err != nil {
			h.opErr("flush", err)
		} else {
			h.durs = append(h.durs, durPoint{pos: pos, ackIdx: h.disk.LogLen(), what: "flush"})
		}
	case "clearfaults":
		h.stopFaults()
	case "armfault":
		h.execArmFault(op)
	case "armstall":
		h.execArmStall(op)
	case "extingest":
		h.execExtIngest(op)
	case "aflush":
		// an asynchronous flush: the following operations overlap it
		if _, err := h.db.AsyncFlush(); err != nil {
			h.opErr("asyncflush", err)
		}
	case "crashat":
		// arm a main-line crash N disk mutations from now
		h.disk.CrashAt = h.disk.LogLen() + op.N
		h.pendSurv = op.Surv
		if op.M > 0 {
			h.crashOpen = op.M
		}
	case "crashnow":
		h.pendSurv = op.Surv
		h.crashHere()
	case "durscan":
		h.execDurScan()
	case "rot":
		h.execRot(op)
	case "compact":
		if err := h.db.Compact(context.Background(), []byte(op.Key), []byte(op.End), op.Flag); err != nil {
			h.opErr("compact", err)
		}
	case "scan":
		h.checkScan(h.model.Len())
		if h.faultProfile() && h.faultsStopped {
			// after the faults stopped: points and range keys, all of them
			pts, spans, err := readAll(h.db)
			if err != nil {
				h.opErr("scan", err)
			} else if d := diffState(h.model.Latest(), pts, spans); d != "" {
				Violation("scan", "after the faults stopped the store differs from the model after %d groups: %s", h.model.Len(), d)
			}
		}
	case "reopen":
		pos := h.model.Len()
		if h.cfg.DisableWAL {
			// Without a WAL a clean Close keeps only what was flushed (the
			// property promises Close durability only with the WAL enabled).
			if err := h.db.Flush(); err != nil {
				h.opErr("flush", err)
			} else {
				h.durs = append(h.durs, durPoint{pos: pos, ackIdx: h.disk.LogLen(), what: "flush"})
			}
		}
		if !h.closeDB() {
			// Close failed under fault injection: what an application can do
			// then is exit; the next incarnation recovers from what is on disk.
			h.crashHere()
		}
		if !h.cfg.DisableWAL {
			h.durs = append(h.durs, durPoint{pos: pos, ackIdx: h.disk.LogLen(), what: "close"})
		}
		h.opening = true
		db, err := pebble.Open("db", h.makeOptions())
		h.opening, h.openFailed = false, err != nil
		if err != nil {
			h.opErr("reopen", err)
			h.crashHere()
		}
		h.db = db
		if h.faultProfile() && h.faultsStopped {
			// a fresh Open after the faults stopped: from here on every error
			// and every Fatalf is a violation again
			h.inc.FaultFired = false
			// "a background failure never corrupts the LSM"
			h.checkLevels("after the faults stopped and the store was reopened")
		}
		h.checkScan(h.model.Len())
		if h.plan.Profile == "files" {
			h.checkNoDeadFiles("after a clean reopen")
		}
	case "snap", "snapclose", "snapget", "snapscan":
		h.execSnap(op)
	case "iter", "iterclose", "iterclone", "iterop":
		h.execIter(op)
	case "ibatch", "ibatchop", "ibatchget", "ibatchiter", "ibatchcommit", "ibatchclose":
		h.execIBatch(op)
	case "efos", "efoswait":
		h.execEFOS(op)
	case "ratchet":
		h.execRatchet(op)
	case "checkpoint":
		h.execCheckpoint(op)
	case "scaninternal":
		h.execScanInternal(op)
	case "metrics":
		m := h.db.Metrics()
		_ = m.String()
	case "wait":
		simrt.Sleep(time.Duration(op.N) * time.Millisecond)
	default:
		simrt.Fail("tooling:badop", "unknown op kind "+op.K)
	}
}

// sdAllowed reports whether SingleDelete(key) satisfies its contract in the
// current history: since the last point deletion of key there was at most one
// Set and no Merge (range deletions, excises and ingestions do not reset the
// count — conservative).
func (h *dbHarness) sdAllowed(key string, pending []kvmodel.Op) bool {
	sets := 0
	scan := func(ops []kvmodel.Op) (stop, ok bool) {
		for i := len(ops) - 1; i >= 0; i-- {
			o := ops[i]
			if o.Key != key {
				continue
			}
			switch o.K {
			case "set":
				sets++
				if sets > 1 {
					return true, false
				}
			case "merge":
				return true, false
			case "del", "delsized", "singledel":
				return true, true
			}
		}
		return false, true
	}
	if stop, ok := scan(pending); stop {
		return ok
	}
	for i := h.model.Len() - 1; i >= 0; i-- {
		if stop, ok := scan(h.model.Groups[i].Ops); stop {
			return ok
		}
	}
	return true
}

// toModel converts a plan sub-op into the model op (values expanded).
func (h *dbHarness) toModel(o *DBOp, pending []kvmodel.Op) kvmodel.Op {
	m := kvmodel.Op{K: o.K, Key: o.Key, End: o.End, Suf: o.Suf}
	switch o.K {
	case "set", "merge", "rkset", "logdata":
		m.Val = expandVal(o.Val, o.VLen)
	case "singledel":
		if !h.sdAllowed(o.Key, pending) {
			m.K = "del"
		}
	case "delsized":
		if h.db != nil && h.db.FormatMajorVersion() < pebble.FormatDeleteSizedAndObsolete {
			m.K = "del"
		}
	}
	return m
}

func writeOpts(sync bool) *pebble.WriteOptions {
	if sync {
		return pebble.Sync
	}
	return pebble.NoSync
}

// applyToBatchDeferred is applyToBatch through the *Deferred API (the caller
// fills key and value in place and calls Finish), where one exists.
func applyToBatchDeferred(b *pebble.Batch, m kvmodel.Op) error {
	var d *pebble.DeferredBatchOp
	switch m.K {
	case "set":
		d = b.SetDeferred(len(m.Key), len(m.Val))
		copy(d.Value, m.Val)
	case "merge":
		d = b.MergeDeferred(len(m.Key), len(m.Val))
		copy(d.Value, m.Val)
	case "del":
		d = b.DeleteDeferred(len(m.Key))
	case "delsized":
		d = b.DeleteSizedDeferred(len(m.Key), uint32(len(m.Key)+8))
	case "singledel":
		d = b.SingleDeleteDeferred(len(m.Key))
	case "delrange":
		d = b.DeleteRangeDeferred(len(m.Key), len(m.End))
		copy(d.Value, m.End)
	case "rkdel":
		d = b.RangeKeyDeleteDeferred(len(m.Key), len(m.End))
		copy(d.Value, m.End)
	default:
		return applyToBatch(b, m)
	}
	copy(d.Key, m.Key)
	return d.Finish()
}

func applyToBatch(b *pebble.Batch, m kvmodel.Op) error {
	switch m.K {
	case "set":
		return b.Set([]byte(m.Key), []byte(m.Val), nil)
	case "merge":
		return b.Merge([]byte(m.Key), []byte(m.Val), nil)
	case "del":
		return b.Delete([]byte(m.Key), nil)
	case "delsized":
		return b.DeleteSized([]byte(m.Key), uint32(len(m.Key)+8), nil)
	case "singledel":
		return b.SingleDelete([]byte(m.Key), nil)
	case "delrange":
		return b.DeleteRange([]byte(m.Key), []byte(m.End), nil)
	case "logdata":
		return b.LogData([]byte(m.Val), nil)
	case "rkset":
		return b.RangeKeySet([]byte(m.Key), []byte(m.End), []byte(m.Suf), []byte(m.Val), nil)
	case "rkunset":
		return b.RangeKeyUnset([]byte(m.Key), []byte(m.End), []byte(m.Suf), nil)
	case "rkdel":
		return b.RangeKeyDelete([]byte(m.Key), []byte(m.End), nil)
	}
	return errors.Newf("bad op %s", m.K)
}

func (h *dbHarness) newGroup(kind string, client int) *groupInfo {
	h.nextG++
	gi := &groupInfo{g: &kvmodel.Group{ID: h.nextG, Kind: kind}, startIdx: h.disk.LogLen(), ackIdx: -1, client: client}
	h.groups = append(h.groups, gi)
	return gi
}

func (h *dbHarness) execBatch(op *DBOp) {
	gi := h.newGroup("batch", op.C)
	for i := range op.Sub {
		gi.g.Ops = append(gi.g.Ops, h.toModel(&op.Sub[i], gi.g.Ops))
	}
	wo := writeOpts(op.Sync)
	var err error
	var seq uint64
	syncFailed := false
	if op.Mode == "direct" && len(gi.g.Ops) == 1 {
		m := gi.g.Ops[0]
		db := h.db
		switch m.K {
		case "set":
			err = db.Set([]byte(m.Key), []byte(m.Val), wo)
		case "merge":
			err = db.Merge([]byte(m.Key), []byte(m.Val), wo)
		case "del":
			err = db.Delete([]byte(m.Key), wo)
		case "delsized":
			err = db.DeleteSized([]byte(m.Key), uint32(len(m.Key)+8), wo)
		case "singledel":
			err = db.SingleDelete([]byte(m.Key), wo)
		case "delrange":
			err = db.DeleteRange([]byte(m.Key), []byte(m.End), wo)
		case "logdata":
			err = db.LogData([]byte(m.Val), wo)
		case "rkset":
			err = db.RangeKeySet([]byte(m.Key), []byte(m.End), []byte(m.Suf), []byte(m.Val), wo)
		case "rkunset":
			err = db.RangeKeyUnset([]byte(m.Key), []byte(m.End), []byte(m.Suf), wo)
		case "rkdel":
			err = db.RangeKeyDelete([]byte(m.Key), []byte(m.End), wo)
		}
	} else {
		b := h.db.NewBatch()
		for i, m := range gi.g.Ops {
			apply := applyToBatch
			if (gi.g.ID+i)%3 == 0 {
				apply = applyToBatchDeferred
			}
			if e := apply(b, m); e != nil {
				simrt.Fail("tooling:batch", e.Error())
			}
		}
		switch op.Mode {
		case "nosyncwait":
			err = h.db.ApplyNoSyncWait(b, pebble.Sync)
			if err == nil {
				// applied and visible; a failed wait only means "not known to
				// be durable"
				if werr := b.SyncWait(); werr != nil {
					h.opErr("syncwait", werr)
					syncFailed = true
				} else {
					gi.sync = true
				}
			}
		case "apply":
			err = h.db.Apply(b, wo)
		default:
			err = b.Commit(wo)
		}
		if err == nil {
			seq = uint64(b.SeqNum())
		}
		b.Close()
	}
	if err != nil {
		// Commit errors are fatal inside Pebble (Logger.Fatalf); an error that
		// is returned instead stems from a check made before the commit.
		h.opErr("commit", err)
		h.dropGroup(gi)
		return
	}
	if op.Sync && !h.cfg.DisableWAL {
		gi.sync = true
	}
	if syncFailed {
		gi.sync = false
	}
	if h.cfg.DisableWAL {
		gi.sync = false
	}
	gi.g.SeqNum = seq
	h.commitModel(gi)
	h.checkTouched(gi)
}

// commitModel appends an acknowledged group to the history.
func (h *dbHarness) commitModel(gi *groupInfo) {
	gi.ackIdx = h.disk.LogLen()
	if h.plan.Inject == "model-drop-write" && gi.g.ID%7 == 3 && len(gi.g.Ops) > 0 && gi.g.Kind == "batch" {
		// self-test of the machinery: the model forgets one op
		g2 := *gi.g
		g2.Ops = g2.Ops[:len(g2.Ops)-1]
		gi.pos = h.model.Append(&g2)
		return
	}
	gi.pos = h.model.Append(gi.g)
}

func (h *dbHarness) extDir() {
	if !h.disk.Exists("ext") {
		if err := h.disk.MkdirAll("ext", 0755); err != nil {
			h.opErr("mkdir", err)
		}
	}
}

// writeTable writes one table of an ingestion to the simulated disk.
func (h *dbHarness) writeTable(tab *DBOp, gi *groupInfo) (string, error) {
	h.extDir()
	h.nExt++
	path := fmt.Sprintf("ext/%06d.sst", h.nExt)
	f, err := h.disk.Create(path, vfs.WriteCategoryUnspecified)
	if err != nil {
		return "", err
	}
	wopts := h.opts.MakeWriterOptions(0, h.db.TableFormat())
	w := sstable.NewWriter(objstorageprovider.NewFileWritable(f), wopts)
	var pts, rest []kvmodel.Op
	for i := range tab.Sub {
		m := h.toModel(&tab.Sub[i], nil)
		if m.K == "singledel" || m.K == "delsized" {
			m.K = "del"
		}
		switch m.K {
		case "set", "merge", "del":
			pts = append(pts, m)
		default:
			rest = append(rest, m)
		}
	}
	sort.SliceStable(pts, func(i, j int) bool { return kvmodel.Compare(pts[i].Key, pts[j].Key) < 0 })
	// at most one point op per user key in a table
	uniq := pts[:0]
	for i, m := range pts {
		if i > 0 && pts[i-1].Key == m.Key {
			continue
		}
		uniq = append(uniq, m)
	}
	pts = uniq
	for _, m := range pts {
		switch m.K {
		case "set":
			err = w.Set([]byte(m.Key), []byte(m.Val))
		case "merge":
			err = w.Merge([]byte(m.Key), []byte(m.Val))
		case "del":
			err = w.Delete([]byte(m.Key))
		}
		if err != nil {
			w.Close()
			return "", err
		}
	}
	sort.SliceStable(rest, func(i, j int) bool { return kvmodel.Compare(rest[i].Key, rest[j].Key) < 0 })
	for _, m := range rest {
		switch m.K {
		case "delrange":
			err = w.DeleteRange([]byte(m.Key), []byte(m.End))
		case "rkset":
			err = w.RangeKeySet([]byte(m.Key), []byte(m.End), []byte(m.Suf), []byte(m.Val))
		case "rkunset":
			err = w.RangeKeyUnset([]byte(m.Key), []byte(m.End), []byte(m.Suf))
		case "rkdel":
			err = w.RangeKeyDelete([]byte(m.Key), []byte(m.End))
		}
		if err != nil {
			w.Close()
			return "", err
		}
	}
	if err := w.Close(); err != nil {
		return "", err
	}
	gi.g.Ops = append(gi.g.Ops, pts...)
	gi.g.Ops = append(gi.g.Ops, rest...)
	return path, nil
}

func (h *dbHarness) exciseSupported() bool {
	return h.db.FormatMajorVersion() >= pebble.FormatVirtualSSTables
}

func (h *dbHarness) execIngest(op *DBOp) {
	kind := op.K
	if kind == "ingestexcise" && !h.exciseSupported() {
		kind = "ingest"
	}
	gi := h.newGroup(kind, op.C)
	var paths []string
	for i := range op.Sub {
		p, err := h.writeTable(&op.Sub[i], gi)
		if err != nil {
			h.opErr("write-ingest-table", err)
			h.dropGroup(gi)
			return
		}
		paths = append(paths, p)
	}
	gi.startIdx = h.disk.LogLen()
	var err error
	if kind == "ingestexcise" {
		gi.g.ExStart, gi.g.ExEnd = op.Key, op.End
		_, err = h.db.IngestAndExcise(context.Background(), paths, nil, nil, pebble.KeyRange{Start: []byte(op.Key), End: []byte(op.End)})
	} else {
		err = h.db.Ingest(context.Background(), paths)
	}
	if err != nil {
		h.resolveFailed(gi, kind, err)
		return
	}
	gi.sync = true
	h.commitModel(gi)
	if kind == "ingestexcise" {
		h.noteExcise(op.Key, op.End)
	}
	h.checkTouched(gi)
}

func (h *dbHarness) execExcise(op *DBOp) {
	if !h.exciseSupported() {
		return
	}
	gi := h.newGroup("excise", op.C)
	gi.g.ExStart, gi.g.ExEnd = op.Key, op.End
	if err := h.db.Excise(context.Background(), pebble.KeyRange{Start: []byte(op.Key), End: []byte(op.End)}); err != nil {
		h.resolveFailed(gi, "excise", err)
		return
	}
	gi.sync = true
	h.commitModel(gi)
	h.noteExcise(op.Key, op.End)
	h.checkTouched(gi)
}

// ---- read oracles ----

func (h *dbHarness) randKey() string {
	return pick(&h.r, h.pfx) + pick(&h.r, h.sfx)
}

// checkGet compares Get(key) with the model state at position pos.
func (h *dbHarness) checkGet(r pebble.Reader, key string, st *kvmodel.State, what string) {
	v, closer, err := r.Get([]byte(key))
	want, ok := st.Get(key)
	switch {
	case err == pebble.ErrNotFound:
		if ok {
			Violation("get", "%s: Get(%q) = not found; model has %q", what, key, shortv(want))
		}
	case err != nil:
		h.opErr("get", err)
	default:
		got := string(v)
		closer.Close()
		if !ok {
			Violation("get", "%s: Get(%q) = %q; model has no such key", what, key, shortv(got))
		} else if got != want {
			Violation("get", "%s: Get(%q) = %q; model has %q", what, key, shortv(got), shortv(want))
		}
	}
	h.count("check.get", 1)
}

func shortv(v string) string {
	if len(v) > 40 {
		return fmt.Sprintf("%s..(%d bytes)", v[:24], len(v))
	}
	return v
}

func (h *dbHarness) checkTouched(gi *groupInfo) {
	st := h.model.Latest()
	seen := map[string]bool{}
	n := 0
	for _, o := range gi.g.Ops {
		if o.Key != "" && !seen[o.Key] && o.K != "logdata" && n < 6 {
			seen[o.Key] = true
			n++
			h.checkGet(h.db, o.Key, st, "after "+gi.g.Kind)
		}
	}
	for i := 0; i < 2; i++ {
		h.checkGet(h.db, h.randKey(), st, "after "+gi.g.Kind)
	}
}

// scanPoints reads all points through a new iterator.
func scanPoints(it *pebble.Iterator) ([]kvmodel.KV, error) {
	var out []kvmodel.KV
	for ok := it.First(); ok; ok = it.Next() {
		v, err := it.ValueAndErr()
		if err != nil {
			return out, err
		}
		out = append(out, kvmodel.KV{K: string(it.Key()), V: string(v)})
	}
	return out, it.Error()
}

// scanPointsTolerant is scanPoints for runs with injected faults: a failed
// value fetch does not end the scan. The fetch is retried once and the scan
// goes on; whatever a retry or a later key returns without an error is an
// ordinary result and is compared like any other. It returns the pairs read,
// the number of values that stayed unreadable (their V is left empty and
// unreadable[i] set) and the iterator's own error.
func scanPointsTolerant(it *pebble.Iterator) (out []kvmodel.KV, unreadable map[int]bool, firstValueErr error, err error) {
	unreadable = map[int]bool{}
	for ok := it.First(); ok; ok = it.Next() {
		v, verr := it.ValueAndErr()
		if verr != nil {
			if firstValueErr == nil {
				firstValueErr = verr
			}
			v, verr = it.ValueAndErr()
			if verr != nil {
				unreadable[len(out)] = true
				out = append(out, kvmodel.KV{K: string(it.Key())})
				continue
			}
		}
		out = append(out, kvmodel.KV{K: string(it.Key()), V: string(v)})
	}
	return out, unreadable, firstValueErr, it.Error()
}

func (h *dbHarness) checkScan(pos int) {
	it, err := h.db.NewIter(nil)
	if err != nil {
		h.opErr("newiter", err)
		return
	}
	if h.faultProfile() {
		got, unreadable, verr, err := scanPointsTolerant(it)
		if cerr := it.Close(); err == nil {
			err = cerr
		}
		if verr != nil {
			h.opErr("iterator-value", verr)
		}
		if err != nil {
			h.opErr("scan", err)
			return
		}
		want := h.model.StateAt(pos).Points()
		for i := range got {
			if unreadable[i] && i < len(want) && want[i].K == got[i].K {
				got[i].V = want[i].V
			}
		}
		if d := kvmodel.DiffPoints(want, got); d != "" {
			Violation("scan", "full scan with a new iterator (continued past %d unreadable values) differs from the model after %d groups: %s", len(unreadable), pos, d)
		}
		h.count("check.scan", 1)
		return
	}
	got, err := scanPoints(it)
	if cerr := it.Close(); err == nil {
		err = cerr
	}
	if err != nil {
		h.opErr("scan", err)
		return
	}
	if d := kvmodel.DiffPoints(h.model.StateAt(pos).Points(), got); d != "" {
		Violation("scan", "full scan with a new iterator differs from the model after %d groups: %s", pos, d)
	}
	h.count("check.scan", 1)
	if h.r.IntN(2) == 0 {
		// the same, backwards (another path through every level and, with
		// separated values, another order of value-block and blob fetches)
		it, err := h.db.NewIter(nil)
		if err != nil {
			h.opErr("newiter", err)
			return
		}
		var rev []kvmodel.KV
		for ok := it.Last(); ok; ok = it.Prev() {
			v, verr := it.ValueAndErr()
			if verr != nil {
				err = verr
				break
			}
			rev = append(rev, kvmodel.KV{K: string(it.Key()), V: string(v)})
		}
		if err == nil {
			err = it.Error()
		}
		if cerr := it.Close(); err == nil {
			err = cerr
		}
		if err != nil {
			h.opErr("scan", err)
			return
		}
		for i, j := 0, len(rev)-1; i < j; i, j = i+1, j-1 {
			rev[i], rev[j] = rev[j], rev[i]
		}
		if d := kvmodel.DiffPoints(h.model.StateAt(pos).Points(), rev); d != "" {
			Violation("scan", "full reverse scan with a new iterator differs from the model after %d groups: %s", pos, d)
		}
		h.count("check.scan_reverse", 1)
	}
}

func writeTrace(s *simrt.Sim) {
	if traceFile == "" {
		return
	}
	var b bytes.Buffer
	for _, l := range s.TraceLog {
		b.WriteString(l)
		b.WriteByte('\n')
	}
	_ = io.Discard
	writeFile(traceFile, b.Bytes())
}

var _ = simsync.Mutex{}

// execExtIngest writes a table to the external object store and ingests it with
// IngestExternalFiles, optionally under a synthetic suffix. The model applies
// the equivalent batch: one Set per key, at prefix+synthetic suffix.
func (h *dbHarness) execExtIngest(op *DBOp) {
	if h.extStore == nil || h.db.FormatMajorVersion() < pebble.FormatSyntheticPrefixSuffix {
		return
	}
	gi := h.newGroup("ingest", op.C)
	h.nExt++
	name := fmt.Sprintf("ext-%06d.sst", h.nExt)
	ow, err := h.extStore.CreateObject(name)
	if err != nil {
		simrt.Fail("tooling:extingest", err.Error())
	}
	wopts := h.opts.MakeWriterOptions(0, h.db.TableFormat())
	w := sstable.NewWriter(objstorageprovider.NewRemoteWritable(ow), wopts)
	for i := range op.Sub {
		m := h.toModel(&op.Sub[i], nil)
		if err := w.Set([]byte(m.Key), []byte(m.Val)); err != nil {
			simrt.Fail("tooling:extingest", err.Error())
		}
		if op.Suf != "" {
			m.Key = kvmodel.Prefix(m.Key) + op.Suf
		}
		gi.g.Ops = append(gi.g.Ops, m)
	}
	if err := w.Close(); err != nil {
		simrt.Fail("tooling:extingest", err.Error())
	}
	size, err := h.extStore.Size(name)
	if err != nil {
		simrt.Fail("tooling:extingest", err.Error())
	}
	gi.startIdx = h.disk.LogLen()
	ef := pebble.ExternalFile{Locator: remote.MakeLocator("ext"), ObjName: name, Size: uint64(size), StartKey: []byte(op.Key), EndKey: []byte(op.End), HasPointKey: true}
	if op.Suf != "" {
		ef.SyntheticSuffix = []byte(op.Suf)
	}
	if _, err := h.db.IngestExternalFiles(context.Background(), []pebble.ExternalFile{ef}); err != nil {
		h.resolveFailed(gi, "extingest", err)
		return
	}
	gi.sync = true
	h.commitModel(gi)
	h.count("probe.ext_ingest", 1)
	if op.Suf != "" {
		h.count("probe.ext_ingest_synthetic_suffix", 1)
	}
	h.checkTouched(gi)
}
