package engine

import (
	"encoding/json"
	"fmt"
	"sort"
	"testing"
	"time"

	"github.com/cockroachdb/pebble/verifsim/simfs"
	"github.com/cockroachdb/pebble/verifsim/simrt"
	"github.com/cockroachdb/pebble/vfs/atomicfs"
)

// markerEngine decides C24: atomic marker moves are all-or-nothing and
// durable. Within each seeded run the crash space is enumerated completely:
// every disk mutation index x every subset of the unsynced items.
type markerEngine struct{}

func init() { Register("marker", &markerEngine{}) }

type markerOp struct {
	K    string          `json:"k"` // move removeobsolete relocate crash
	Val  string          `json:"val,omitempty"`
	Surv *simfs.Survival `json:"surv,omitempty"`
	// Fault, if >0, makes the Fault-th disk operation of this Move fail
	// (create / write / sync of the marker file, directory sync, remove).
	Fault int `json:"fault,omitempty"`
}

func (e *markerEngine) Generate(profile string, seed uint64, tier string) (*Plan, error) {
	r := simrt.NewRng(seed, 3000)
	n := 3 + r.IntN(10)
	if tier == "thorough" {
		n = 3 + r.IntN(25)
	}
	var ops []markerOp
	for i := 0; i < n; i++ {
		switch x := r.IntN(10); {
		case x < 6:
			o := markerOp{K: "move", Val: fmt.Sprintf("val%d", i)}
			if r.IntN(5) == 0 {
				o.Fault = 1 + r.IntN(5)
			}
			ops = append(ops, o)
		case x < 7:
			ops = append(ops, markerOp{K: "removeobsolete"})
		case x < 8:
			ops = append(ops, markerOp{K: "relocate"})
		default:
			s := simfs.Survival{Mode: pick(&r, []string{"none", "all", "pct"}), Pct: 50, Seed: r.Next()}
			ops = append(ops, markerOp{K: "crash", Surv: &s})
		}
	}
	p := &Plan{Engine: "marker", Profile: profile, Seed: seed, Tier: tier, Sched: Sched{Policy: "sticky", Sticky: 1, Seed: seed}}
	p.Ops = mustJSON(ops)
	return p, nil
}

type moveRec struct {
	old, new string
	startIdx int
	endIdx   int // -1 while in flight, and for ever if the Move returned an error
}

func (e *markerEngine) Execute(t *testing.T, plan *Plan, res *Result) {
	var ops []markerOp
	if err := json.Unmarshal(plan.Ops, &ops); err != nil {
		res.Status, res.Msg = "tooling", err.Error()
		return
	}
	sim := simrt.New(plan.Sched.Seed, plan.Sched.simCfg())
	start := time.Now()
	subsets := 0
	r := sim.Run(&simrt.Inc{ID: 0}, func() {
		disk := simfs.New("disk", plan.Seed)
		disk.NoYield = true
		if err := disk.MkdirAll("d", 0755); err != nil {
			simrt.Fail("tooling:mkdir", err.Error())
		}
		// make the directory itself durable
		if f, err := disk.OpenDir(""); err == nil {
			f.Sync()
			f.Close()
		}
		cur := ""
		first, setupIdx := disk, disk.LogLen()
		m, v, err := atomicfs.LocateMarker(disk, "d", "m")
		if err != nil || v != "" {
			simrt.Fail("oracle:marker", fmt.Sprintf("fresh directory: LocateMarker = %q, %v", v, err))
		}
		var moves []moveRec
		// verify enumerates crash points of the current disk's log.
		verify := func(d *simfs.Disk, base string) {
			curD := d.ReplayPrefix(0)
			total := d.LogLen()
			for k := 0; k <= total; k++ {
				if k > 0 {
					curD.ApplyLogged(d, k-1)
				}
				if d == first && k < setupIdx {
					continue // the directory itself is not durable yet
				}
				// A completed Move leaves exactly its value; a Move in flight at
				// k, or one that returned an error (its effect is in doubt until
				// a later Move completes), adds its value as a possibility.
				allowed := map[string]bool{base: true}
				for _, mv := range moves {
					if mv.startIdx > k {
						break
					}
					if mv.endIdx >= 0 && mv.endIdx <= k {
						allowed = map[string]bool{mv.new: true}
					} else {
						allowed[mv.new] = true
					}
				}
				items := curD.UnsyncedItems(0)
				n := len(items)
				if n > 10 {
					n = 10
				}
				for mask := uint64(0); mask < 1<<uint(n); mask++ {
					img := curD.CrashImage(simfs.Survival{Mode: "mask", Mask: mask})
					img.NoYield = true
					got, err := atomicfs.ReadMarker(img, "d", "m")
					if err != nil {
						simrt.Fail("oracle:marker", fmt.Sprintf("crash before mutation %d/%d, surviving unsynced items %b of %v: ReadMarker failed: %v", k, total, mask, items, err))
					}
					if !allowed[got] {
						simrt.Fail("oracle:marker", fmt.Sprintf("crash before mutation %d/%d (%s), surviving unsynced items %b of %v: marker reads %q, allowed %v", k, total, opDesc(d, k), mask, items, got, keysOf(allowed)))
					}
					subsets++
				}
				res.Stats["crash_points"]++
			}
		}
		base := ""
		inDoubt := map[string]bool{} // values of failed Moves since the last completed one
		okValue := func(v string) bool { return v == cur || inDoubt[v] }
		hr := simrt.NewRng(plan.Seed, 3100)
		doCrash := func(spec simfs.Survival) {
			verify(disk, base)
			disk = disk.CrashImage(spec)
			disk.NoYield = true
			moves = nil
			var v string
			m, v, err = atomicfs.LocateMarker(disk, "d", "m")
			if err != nil || !okValue(v) {
				simrt.Fail("oracle:marker", fmt.Sprintf("after crash (survival %s): LocateMarker = %q, %v; expected %q (every completed Move is durable) or the value of a failed Move: %v", spec, v, err, cur, keysOf(inDoubt)))
			}
			cur, inDoubt = v, map[string]bool{}
			base = cur
			res.Stats["crashes"]++
		}
		for _, op := range ops {
			switch op.K {
			case "move":
				rec := moveRec{old: cur, new: op.Val, startIdx: disk.LogLen(), endIdx: -1}
				moves = append(moves, rec)
				if op.Fault > 0 {
					disk.SetFaults([]*simfs.Fault{{Name: "marker-move", Errno: "EIO", Skip: op.Fault - 1, Count: 1,
						Kinds: simfs.KindMask(simfs.OpCreate, simfs.OpWrite, simfs.OpSync, simfs.OpSyncDir, simfs.OpRemove, simfs.OpRename)}})
				}
				var err error
				panicked := false
				func() {
					defer func() {
						if r := recover(); r != nil {
							// Move panics when the directory sync fails: fail-stop
							if e, ok := r.(error); !ok || !simfs.IsInjected(e) {
								panic(r)
							}
							panicked = true
						}
					}()
					err = m.Move(op.Val)
				}()
				fired := disk.St.FaultFired["marker-move"] > 0
				disk.St.FaultFired["marker-move"] = 0
				disk.ClearFaults()
				if panicked {
					// the process is gone: whatever is durable decides
					inDoubt[op.Val] = true
					res.Stats["moves_panicked"]++
					doCrash(simfs.Survival{Mode: pick(&hr, []string{"none", "all", "pct"}), Pct: 50, Seed: hr.Next()})
					break
				}
				if err != nil {
					if !fired {
						simrt.Fail("oracle:marker", "Move failed without injected fault: "+err.Error())
					}
					// in doubt: the marker may read the old or the new value
					// until a later Move completes
					inDoubt[op.Val] = true
					res.Stats["moves_failed"]++
					break
				}
				moves[len(moves)-1].endIdx = disk.LogLen()
				cur = op.Val
				inDoubt = map[string]bool{}
				res.Stats["moves"]++
			case "removeobsolete":
				if err := m.RemoveObsolete(); err != nil {
					simrt.Fail("oracle:marker", "RemoveObsolete failed: "+err.Error())
				}
			case "relocate":
				m.Close()
				var v string
				m, v, err = atomicfs.LocateMarker(disk, "d", "m")
				if err != nil || !okValue(v) {
					simrt.Fail("oracle:marker", fmt.Sprintf("LocateMarker = %q, %v; expected %q (or the value of a failed Move: %v)", v, err, cur, keysOf(inDoubt)))
				}
				// Reading a value does not make it durable: if this is the value
				// of a failed Move, the previous one stays possible after a crash.
				if v != cur {
					inDoubt[cur] = true
					cur = v
				}
			case "crash":
				spec := simfs.Survival{Mode: "none"}
				if op.Surv != nil {
					spec = *op.Surv
				}
				doCrash(spec)
			}
			simrt.Progress()
		}
		verify(disk, base)
	})
	res.Stats["fake_ns"] = int64(time.Since(start))
	res.Stats["img.verified"] = int64(subsets)
	finish(res, r, sim)
	res.Nontrivial = res.Stats["moves"] > 1 && subsets > 10
	res.CaseHash = fmt.Sprintf("%016x", caseHash(plan))
	n := len(ops)
	if n > 8 {
		n = 8
	}
	res.Sample = map[string]any{"ops": ops[:n], "n_ops": len(ops), "crash_points": res.Stats["crash_points"], "images": subsets}
}

func keysOf(m map[string]bool) []string {
	var out []string
	for k := range m {
		out = append(out, k)
	}
	sort.Strings(out)
	return out
}
