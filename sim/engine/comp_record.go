package engine

import (
	"bytes"
	"encoding/json"
	"fmt"
	"io"
	"testing"
	"time"

	"github.com/cockroachdb/errors"
	"github.com/cockroachdb/pebble/internal/base"
	"github.com/cockroachdb/pebble/record"
	"github.com/cockroachdb/pebble/verifsim/simfs"
	"github.com/cockroachdb/pebble/verifsim/simrt"
	"github.com/cockroachdb/pebble/verifsim/simsync"
	"github.com/cockroachdb/pebble/vfs"
)

// recordEngine decides C18 (round trip / clean prefix), C19 (corruption in
// synced WAL data is reported) and C20 (sync acknowledgement implies
// durability) on the real record.Writer / record.LogWriter / record.Reader
// with the LogWriter's flush loop running as a scheduled task.
type recordEngine struct{}

func init() { Register("record", &recordEngine{}) }

type recSpec struct {
	Size int  `json:"size"`
	Sync bool `json:"sync,omitempty"`
	Wait bool `json:"wait,omitempty"` // wait for the sync before writing the next record
}

type recCfg struct {
	Format    string `json:"format"` // legacy recyclable walsync
	Recycled  bool   `json:"recycled,omitempty"`
	OldSizes  []int  `json:"old_sizes,omitempty"`
	MinSyncUs int    `json:"min_sync_us,omitempty"`
	ExternalQ bool   `json:"external_queue,omitempty"`
	CloseRace bool   `json:"close_race,omitempty"` // Close while syncs are pending
	NCorrupt  int    `json:"n_corrupt,omitempty"`
}

const recBlock = 32 << 10

func recSizes(r *simrt.Rng) int {
	switch r.IntN(12) {
	case 0:
		return 0
	case 1:
		return 1
	case 2:
		return 7 + r.IntN(13) // around the header sizes
	case 3:
		return recBlock - 40 + r.IntN(60) // around a block minus header
	case 4:
		return recBlock*(1+r.IntN(2)) - 30 + r.IntN(50)
	case 5:
		return 20000 + r.IntN(60000)
	case 6, 7:
		return 100 + r.IntN(3000)
	}
	return 5 + r.IntN(200)
}

func (e *recordEngine) Generate(profile string, seed uint64, tier string) (*Plan, error) {
	r := simrt.NewRng(seed, 4000)
	cfg := recCfg{}
	switch profile {
	case "roundtrip":
		cfg.Format = pick(&r, []string{"legacy", "recyclable", "walsync", "walsync"})
	case "corrupt":
		cfg.Format = "walsync"
		cfg.NCorrupt = 40
	case "logwriter":
		cfg.Format = pick(&r, []string{"recyclable", "walsync"})
		cfg.ExternalQ = r.IntN(3) == 0
		cfg.CloseRace = r.IntN(2) == 0
	default:
		return nil, fmt.Errorf("record: unknown profile %q", profile)
	}
	if cfg.Format != "legacy" && profile != "logwriter" && r.IntN(3) == 0 {
		cfg.Recycled = true
		n := 2 + r.IntN(12)
		for i := 0; i < n; i++ {
			cfg.OldSizes = append(cfg.OldSizes, recSizes(&r))
		}
	}
	if cfg.Format != "legacy" && r.IntN(3) == 0 {
		cfg.MinSyncUs = pick(&r, []int{10, 500, 5000})
	}
	n := 1 + r.IntN(24)
	if tier == "thorough" {
		n = 1 + r.IntN(40)
	}
	if profile == "corrupt" {
		n = 6 + r.IntN(30)
	}
	var recs []recSpec
	// The reader's checksum-mismatch diagnostic is quadratic in the chunk
	// size: bound the number of large records per log.
	large, maxLarge := 0, 2
	if tier == "thorough" || profile == "corrupt" {
		maxLarge = 5
	}
	// off tracks the offset inside the current 32 KiB block as the writers lay
	// out fragments (header + payload; a block tail shorter than a header is
	// zero-filled), so that some records can be sized to end an exact number
	// of bytes before a block boundary - the off-by-one territory of the
	// writer's padding rule and the reader's zeroed-tail rule.
	hdr := map[string]int{"legacy": 7, "recyclable": 11, "walsync": 19}[cfg.Format]
	off := 0
	advance := func(size int) {
		for first := true; first || size > 0; first = false {
			if recBlock-off < hdr {
				off = 0
			}
			frag := min(size, recBlock-off-hdr)
			off += hdr + frag
			size -= frag
			if off == recBlock {
				off = 0
			}
		}
	}
	for i := 0; i < n; i++ {
		s := recSpec{Size: recSizes(&r), Sync: r.IntN(3) == 0}
		if r.IntN(5) == 0 {
			// end this record's last fragment exactly rem bytes before the block end
			rem := r.IntN(2*hdr + 4)
			if sz := recBlock - off - hdr - rem; sz >= 0 && recBlock-off >= hdr && (sz <= 8<<10 || large < maxLarge) {
				s.Size = sz
			}
		}
		if s.Size > 8<<10 {
			if large >= maxLarge {
				s.Size = 5 + s.Size%1500
			} else {
				large++
			}
		}
		if profile == "corrupt" && i%3 == 1 {
			s.Sync = true
		}
		s.Wait = s.Sync && (profile != "logwriter" || r.IntN(2) == 0)
		advance(s.Size)
		recs = append(recs, s)
	}
	p := &Plan{Engine: "record", Profile: profile, Seed: seed, Tier: tier}
	p.Sched = genSched(&r, true)
	p.Cfg = mustJSON(cfg)
	p.Ops = mustJSON(recs)
	if profile == "logwriter" && r.IntN(2) == 0 {
		// injected write / sync errors on the log file
		k := simfs.KindMask(simfs.OpSync)
		name := "sync-error"
		if r.IntN(2) == 0 {
			k = simfs.KindMask(simfs.OpWrite)
			name = "write-error"
		}
		p.Faults = []*simfs.Fault{{Name: name, Kinds: k, Classes: simfs.ClassMask(simfs.ClsWAL), Skip: r.IntN(6), Count: 1 + r.IntN(2), Errno: "EIO", Short: r.IntN(2) == 0}}
	}
	return p, nil
}

func recPayload(logNum, i, size int) []byte {
	b := make([]byte, size)
	tag := fmt.Sprintf("L%d.R%d:%d:", logNum, i, size)
	copy(b, tag)
	for j := len(tag); j < size; j++ {
		b[j] = byte('a' + (i+j)%26)
	}
	return b
}

type recState struct {
	plan *Plan
	res  *Result
	cfg  recCfg
	recs []recSpec
	disk *simfs.Disk
	r    simrt.Rng

	written [][]byte
	end     []int64 // end offset of each record
	ackIdx  []int   // disk log index when the record was known durable (-1 never)
	emitIdx []int   // number of records already acknowledged-durable when record i was emitted
}

func (e *recordEngine) Execute(t *testing.T, plan *Plan, res *Result) {
	s := &recState{plan: plan, res: res, r: simrt.NewRng(plan.Seed, 4100)}
	if err := json.Unmarshal(plan.Cfg, &s.cfg); err != nil {
		res.Status, res.Msg = "tooling", err.Error()
		return
	}
	if err := json.Unmarshal(plan.Ops, &s.recs); err != nil {
		res.Status, res.Msg = "tooling", err.Error()
		return
	}
	cfg := plan.Sched.simCfg()
	cfg.Horizon = time.Minute
	sim := simrt.New(plan.Sched.Seed, cfg)
	start := time.Now()
	r := sim.Run(&simrt.Inc{ID: 1}, func() {
		switch plan.Profile {
		case "logwriter":
			s.runLogWriter()
		default:
			s.runRoundTrip()
		}
	})
	simsync.WGZeroHook = nil
	res.Stats["fake_ns"] = int64(time.Since(start))
	if s.disk != nil {
		for k, v := range s.disk.St.FaultFired {
			res.Stats["fault."+k] += int64(v)
		}
	}
	finish(res, r, sim)
	res.Nontrivial = res.Stats["records"] > 1 && (res.Stats["img.verified"] > 3 || res.Stats["check.sync_ack"] > 0)
	res.CaseHash = fmt.Sprintf("%016x", caseHash(plan))
	n := len(s.recs)
	if n > 8 {
		n = 8
	}
	res.Sample = map[string]any{"cfg": s.cfg, "records": s.recs[:n], "n_records": len(s.recs), "sched": plan.Sched, "faults": plan.Faults}
}

func (s *recState) logCfg(cb record.ExternalSyncQueueCallback) record.LogWriterConfig {
	c := record.LogWriterConfig{
		WriteWALSyncOffsets: func() bool { return s.cfg.Format == "walsync" },
	}
	if s.cfg.MinSyncUs > 0 {
		d := time.Duration(s.cfg.MinSyncUs) * time.Microsecond
		c.WALMinSyncInterval = func() time.Duration { return d }
	}
	c.ExternalSyncQueueCallback = cb
	return c
}

func (s *recState) fail(class, format string, args ...any) {
	simrt.Fail("oracle:"+class, fmt.Sprintf(format, args...))
}

// prepareFile creates the log file, possibly as a recycled file that still
// holds an older, complete log.
func (s *recState) prepareFile() (vfs.File, []byte) {
	d := simfs.New("disk", s.plan.Seed)
	s.disk = d
	if err := d.MkdirAll("wal", 0755); err != nil {
		s.fail("tooling", "%v", err)
	}
	var old []byte
	if s.cfg.Recycled {
		f, err := d.Create("wal/000001.log", vfs.WriteCategoryUnspecified)
		if err != nil {
			s.fail("tooling", "%v", err)
		}
		w := record.NewLogWriter(f, base.DiskFileNum(1), s.logCfg(nil))
		for i, n := range s.cfg.OldSizes {
			if _, err := w.WriteRecord(recPayload(1, i, n)); err != nil {
				s.fail("record-write", "old log: %v", err)
			}
		}
		if err := w.Close(); err != nil {
			s.fail("record-write", "old log close: %v", err)
		}
		old, _ = d.ReadFile("wal/000001.log")
		nf, err := d.ReuseForWrite("wal/000001.log", "wal/000002.log", vfs.WriteCategoryUnspecified)
		if err != nil {
			s.fail("tooling", "%v", err)
		}
		for _, dn := range []string{"wal", ""} {
			dir, _ := d.OpenDir(dn)
			dir.Sync()
			dir.Close()
		}
		return nf, old
	}
	f, err := d.Create("wal/000002.log", vfs.WriteCategoryUnspecified)
	if err != nil {
		s.fail("tooling", "%v", err)
	}
	// as Pebble does: make the new file's directory entry durable
	for _, dn := range []string{"wal", ""} {
		dir, _ := d.OpenDir(dn)
		dir.Sync()
		dir.Close()
	}
	return f, nil
}

const recPath = "wal/000002.log"

// runRoundTrip: C18 and C19.
func (s *recState) runRoundTrip() {
	f, old := s.prepareFile()
	d := s.disk
	if len(s.plan.Faults) > 0 {
		d.SetFaults(s.plan.Faults)
	}
	durable := 0     // number of leading records known durable
	prevDurable := 0 // the same, as of the previous sync acknowledgement
	note := func(i int, p []byte, end int64) {
		s.written = append(s.written, p)
		s.end = append(s.end, end)
		s.ackIdx = append(s.ackIdx, -1)
		// The durability watermark a chunk header carries is only guaranteed
		// to cover the sync before the latest acknowledged one: the writer
		// publishes the watermark of a sync after it has released that sync's
		// waiters.
		s.emitIdx = append(s.emitIdx, prevDurable)
	}
	acked := func(upTo int) {
		for j := 0; j <= upTo; j++ {
			if s.ackIdx[j] < 0 {
				s.ackIdx[j] = d.LogLen()
			}
		}
		if upTo+1 > durable {
			prevDurable = durable
			durable = upTo + 1
		}
	}
	if s.cfg.Format == "legacy" {
		w := record.NewWriter(f)
		for i, rs := range s.recs {
			p := recPayload(2, i, rs.Size)
			if _, err := w.WriteRecord(p); err != nil {
				s.fail("record-write", "%v", err)
			}
			note(i, p, w.Size())
			if rs.Sync {
				if err := w.Flush(); err != nil {
					s.fail("record-write", "%v", err)
				}
				if err := f.Sync(); err != nil {
					s.fail("record-write", "%v", err)
				}
				acked(i)
			}
			simrt.Progress()
		}
		if err := w.Close(); err != nil {
			s.fail("record-write", "%v", err)
		}
		f.Sync()
		f.Close()
		acked(len(s.recs) - 1)
	} else {
		w := record.NewLogWriter(f, base.DiskFileNum(2), s.logCfg(nil))
		for i, rs := range s.recs {
			p := recPayload(2, i, rs.Size)
			if rs.Sync {
				var wg simsync.WaitGroup
				var serr error
				wg.Add(1)
				end, err := w.SyncRecord(p, &wg, &serr)
				if err != nil {
					s.fail("record-write", "%v", err)
				}
				note(i, p, end)
				wg.Wait()
				if serr != nil {
					s.fail("record-write", "sync error without injected fault: %v", serr)
				}
				acked(i)
			} else {
				end, err := w.WriteRecord(p)
				if err != nil {
					s.fail("record-write", "%v", err)
				}
				note(i, p, end)
			}
			simrt.Progress()
		}
		if err := w.Close(); err != nil {
			s.fail("record-write", "close: %v", err)
		}
		acked(len(s.recs) - 1)
	}
	s.res.Stats["records"] = int64(len(s.recs))
	final, _ := d.ReadFile(recPath)
	// 0. fault-free round trip
	s.readCheck(final, len(s.written), "complete log")
	if s.plan.Profile == "corrupt" {
		s.corruptCheck(final)
		return
	}
	// 1. crash images of the simulated disk: every mutation index (small logs)
	//    or a sample, x survival specs
	total := d.LogLen()
	var idx []int
	if total <= 80 || s.plan.Tier == "thorough" && total <= 400 {
		for k := 0; k <= total; k++ {
			idx = append(idx, k)
		}
	} else {
		for j := 0; j < 30; j++ {
			idx = append(idx, s.r.IntN(total+1))
		}
		idx = append(idx, total)
	}
	cur := d.ReplayPrefix(0)
	at := 0
	sortInts(idx)
	for _, k := range idx {
		for at < k {
			cur.ApplyLogged(d, at)
			at++
		}
		must := 0
		for j := range s.ackIdx {
			if s.ackIdx[j] >= 0 && s.ackIdx[j] <= k {
				must = j + 1
			}
		}
		// C18 is stated for cuts, zeroed tails and recycled files, i.e. for
		// crash images in which a *prefix* of the unsynced data survives (at
		// 4 KiB and at 512-byte granularity). Images with holes (a lost block
		// followed by a surviving one) are outside its statement: there the
		// reader resynchronises at the next first/full chunk (DESIGN.md 5.6).
		for _, spec := range []simfs.Survival{{Mode: "none"}, {Mode: "all"}, {Mode: "prefix", Seed: s.r.Next()}, {Mode: "prefix", Seed: s.r.Next(), Block: 512}} {
			img := cur.CrashImage(spec)
			b, err := img.ReadFile(recPath)
			if err != nil {
				if must > 0 {
					s.fail("record-prefix", "crash before mutation %d, survival %s: log file missing although %d records were durable", k, spec, must)
				}
				continue
			}
			s.readCheck(b, must, fmt.Sprintf("crash before disk mutation %d/%d, survival %s", k, total, spec))
		}
	}
	// 2. cut at byte offsets: truncation, zeroed tail, recycled overlay
	var cuts []int
	if len(final) <= 3000 {
		for c := 0; c <= len(final); c++ {
			cuts = append(cuts, c)
		}
	} else {
		// The reader's checksum-mismatch diagnostic is expensive on large
		// chunks, so large logs get fewer cut points.
		nrand, span := 300, 20
		if len(final) > 2*recBlock {
			nrand, span = 40, 3
		}
		for j := 0; j < nrand; j++ {
			cuts = append(cuts, s.r.IntN(len(final)+1))
		}
		for _, e := range s.end {
			for dlt := -span; dlt <= span; dlt++ {
				if c := int(e) + dlt; c >= 0 && c <= len(final) {
					cuts = append(cuts, c)
				}
			}
		}
		for b := recBlock; b < len(final); b += recBlock {
			for dlt := -span - 2; dlt <= span+2; dlt++ {
				if c := b + dlt; c >= 0 && c <= len(final) {
					cuts = append(cuts, c)
				}
			}
		}
	}
	for _, c := range cuts {
		must := 0
		for j, e := range s.end {
			if int(e) <= c {
				must = j + 1
			}
		}
		if !s.cfg.Recycled {
			s.readCheck(final[:c], must, fmt.Sprintf("file cut at byte %d/%d", c, len(final)))
		}
		z := make([]byte, max(len(final), len(old)))
		copy(z, final[:c])
		if !s.cfg.Recycled {
			s.readCheck(z, must, fmt.Sprintf("tail zeroed from byte %d/%d", c, len(final)))
		}
		if s.cfg.Recycled {
			o := make([]byte, max(len(final), len(old)))
			copy(o, old)
			copy(o, final[:c])
			s.readCheck(o, must, fmt.Sprintf("recycled file: new log up to byte %d/%d over the old log (%d bytes)", c, len(final), len(old)))
		}
	}
}

func sortInts(a []int) {
	for i := 1; i < len(a); i++ {
		for j := i; j > 0 && a[j-1] > a[j]; j-- {
			a[j-1], a[j] = a[j], a[j-1]
		}
	}
}

func isEndOfLog(err error) bool {
	return err == io.EOF || record.IsInvalidRecord(err) || errors.Is(err, io.ErrUnexpectedEOF)
}

// readAllRecords reads a log image until the reader stops.
func readAllRecords(img []byte, logNum int) (recs [][]byte, end error) {
	rr := record.NewReader(bytes.NewReader(img), base.DiskFileNum(logNum))
	for {
		r, err := rr.Next()
		if err != nil {
			return recs, err
		}
		data, err := io.ReadAll(r)
		if err != nil {
			return recs, err
		}
		recs = append(recs, data)
	}
}

// readCheck: the reader must return a prefix of the written records that
// contains at least the first must records, byte-identical, and then stop
// with a clean end or an end-of-log error.
func (s *recState) readCheck(img []byte, must int, what string) {
	got, end := readAllRecords(img, 2)
	s.res.Stats["img.verified"]++
	for i, g := range got {
		if i >= len(s.written) {
			s.fail("record-prefix", "%s: reader returned %d records, only %d were written (extra record of %d bytes: %q)", what, len(got), len(s.written), len(g), shortv(string(g)))
		}
		if !bytes.Equal(g, s.written[i]) {
			from := int64(0)
			if i > 0 {
				from = s.end[i-1]
			}
			to := min(int(from)+48, len(img))
			s.fail("record-prefix", "%s: record %d differs from what was written: got %d bytes %q, wrote %d bytes %q; record end offsets %v; image bytes at %d: %x", what, i, len(g), shortv(string(g)), len(s.written[i]), shortv(string(s.written[i])), s.end, from, img[min(int(from), len(img)):to])
		}
	}
	if len(got) < must {
		s.fail("record-durable", "%s: reader returned %d records (then %v) but the first %d were durable/complete", what, len(got), end, must)
	}
	if !isEndOfLog(end) {
		s.fail("record-prefix", "%s: reader stopped with unexpected error %v after %d records", what, end, len(got))
	}
}

// corruptCheck: C19.
func (s *recState) corruptCheck(final []byte) {
	n := len(s.written)
	for c := 0; c < s.cfg.NCorrupt; c++ {
		i := s.r.IntN(n)
		if len(s.written[i]) == 0 {
			continue
		}
		start := int64(0)
		if i > 0 {
			start = s.end[i-1]
		}
		// x: a payload byte of the last chunk of record i, or a header byte when
		// the record is a single chunk inside one block.
		back := 1 + s.r.IntN(min(len(s.written[i]), 100))
		if s.end[i]%recBlock == 0 {
			// the reported end offset includes up to 18 bytes of block padding
			back += 19
			if back >= len(s.written[i]) {
				continue
			}
		}
		x := int(s.end[i]) - back
		single := int(s.end[i]-start) == len(s.written[i])+19 && start/recBlock == (s.end[i]-1)/recBlock
		if single && s.r.IntN(3) == 0 {
			x = int(start) + s.r.IntN(19)
		}
		// evidence: a record j emitted after some record s>=i was acknowledged
		// durable, ending in a later 32 KiB block than x.
		evidence := -1
		for j := i + 1; j < n; j++ {
			if s.emitIdx[j] > i && int(s.end[j]-1)/recBlock > x/recBlock && len(s.written[j]) > 0 {
				evidence = j
				break
			}
		}
		if evidence < 0 {
			s.res.Stats["probe.corrupt_no_evidence"]++
			continue
		}
		img := append([]byte(nil), final...)
		pat := s.r.IntN(4)
		switch pat {
		case 0:
			img[x] ^= 1 << uint(s.r.IntN(8))
		case 1:
			img[x] = ^img[x]
		case 2:
			lo := max(int(start), x-8)
			for k := lo; k <= x; k++ {
				img[k] = 0
			}
			if bytes.Equal(img, final) {
				continue
			}
		case 3:
			if !single {
				img[x] ^= 0x55
			} else {
				for k := int(start); k < int(s.end[i]); k++ {
					img[k] = 0
				}
			}
		}
		got, end := readAllRecords(img, 2)
		s.res.Stats["img.verified"]++
		s.res.Stats["check.corrupt"]++
		what := fmt.Sprintf("byte %d of record %d (offsets [%d,%d)) damaged with pattern %d; record %d (ending at %d, emitted after record %d was acknowledged synced) is intact", x, i, start, s.end[i], pat, evidence, s.end[evidence], s.emitIdx[evidence]-1)
		for k, g := range got {
			if k >= len(s.written) || !bytes.Equal(g, s.written[k]) {
				s.fail("wal-corruption", "%s: reader returned a record that was never written at index %d (%d bytes)", what, k, len(g))
			}
		}
		if len(got) > i {
			// the damaged chunk must never be returned; equality above proves the
			// returned bytes are the original ones, which is impossible for a
			// damaged payload byte unless the damage hit padding
			if pat != 2 || x >= int(start)+19 {
				s.fail("wal-corruption", "%s: reader returned %d records, including the damaged one", what, len(got))
			}
		}
		if len(got) < i {
			s.fail("wal-corruption", "%s: reader returned only %d records (then %v); records before the damage were lost", what, len(got), end)
		}
		if !errors.Is(end, record.ErrInvalidChunk) && !errors.Is(end, record.ErrZeroedChunk) {
			s.fail("wal-corruption", "%s: reader ended with %v instead of a corruption error: the damage in synced data is hidden as a clean end of log\nchunks from the damaged block on: %s", what, end, dumpChunks(img, x/recBlock))
		}
	}
}

// dumpChunks renders the WAL-sync chunk headers of a log image from block b on
// (diagnostics only; the oracle does not depend on it).
func dumpChunks(img []byte, b int) string {
	var out bytes.Buffer
	for blk := b; blk*recBlock < len(img) && blk < b+4; blk++ {
		off := blk * recBlock
		endBlk := min(off+recBlock, len(img))
		for off+19 <= endBlk {
			ln := int(img[off+4]) | int(img[off+5])<<8
			typ := img[off+6]
			var so uint64
			for k := 7; k >= 0; k-- {
				so = so<<8 | uint64(img[off+11+k])
			}
			fmt.Fprintf(&out, "[@%d type=%d len=%d synced=%d] ", off, typ, ln, so)
			if typ == 0 && ln == 0 {
				break
			}
			off += 19 + ln
		}
	}
	return out.String()
}

// ---- C20 ----

type syncReq struct {
	idx  int
	end  int64
	wg   *simsync.WaitGroup
	err  error
	done bool
}

func (s *recState) runLogWriter() {
	f, _ := s.prepareFile()
	d := s.disk
	if len(s.plan.Faults) > 0 {
		d.SetFaults(s.plan.Faults)
	}
	var reqs []*syncReq
	byWG := map[*simsync.WaitGroup]*syncReq{}
	// checkRelease is the oracle, evaluated at the instant a waiter is released.
	checkRelease := func(r *syncReq, err error, how string) {
		r.done = true
		s.res.Stats["check.sync_ack"]++
		if err != nil {
			s.res.Stats["probe.sync_ack_error"]++
			return
		}
		if got := d.SyncedPrefixLen(recPath); int64(got) < r.end {
			s.fail("sync-ack", "sync waiter of record %d released without error (%s) but only %d bytes of the log are durable; the record ends at %d", r.idx, how, got, r.end)
		}
	}
	simsync.WGZeroHook = func(w *simsync.WaitGroup) {
		if r := byWG[w]; r != nil && !r.done {
			checkRelease(r, r.err, "WaitGroup.Done")
		}
	}
	var cb record.ExternalSyncQueueCallback
	if s.cfg.ExternalQ {
		cb = func(doneSync record.PendingSyncIndex, err error) {
			for _, r := range reqs {
				if !r.done && int64(r.idx) <= doneSync.Index {
					checkRelease(r, err, "external sync queue callback")
				}
			}
		}
	}
	w := record.NewLogWriter(f, base.DiskFileNum(2), s.logCfg(cb))
	var waiters simsync.WaitGroup
	failed := false
	for i, rs := range s.recs {
		p := recPayload(2, i, rs.Size)
		var end int64
		var err error
		switch {
		case rs.Sync && s.cfg.ExternalQ:
			r := &syncReq{idx: i}
			reqs = append(reqs, r)
			end, err = w.SyncRecordGeneralized(p, &record.PendingSyncIndex{Index: int64(i)})
			r.end = end
		case rs.Sync:
			r := &syncReq{idx: i, wg: &simsync.WaitGroup{}}
			r.wg.Add(1)
			byWG[r.wg] = r
			reqs = append(reqs, r)
			end, err = w.SyncRecord(p, r.wg, &r.err)
			r.end = end
			if rs.Wait && err == nil {
				r.wg.Wait()
			} else if err == nil {
				waiters.Add(1)
				simrt.Go("waiter", func() {
					defer waiters.Done()
					r.wg.Wait()
				})
			}
		default:
			end, err = w.WriteRecord(p)
		}
		if err != nil {
			// the writer reports an earlier write/sync failure
			failed = true
			if len(s.plan.Faults) == 0 {
				s.fail("record-write", "write failed without injected fault: %v", err)
			}
			if rs.Sync && !s.cfg.ExternalQ {
				r := reqs[len(reqs)-1]
				r.done = true // never queued
			} else if rs.Sync {
				reqs[len(reqs)-1].done = true
			}
			break
		}
		s.written = append(s.written, p)
		s.end = append(s.end, end)
		simrt.Progress()
	}
	s.res.Stats["records"] = int64(len(s.written))
	var cerr error
	if s.cfg.ExternalQ {
		last := record.PendingSyncIndex{Index: record.NoSyncIndex}
		if n := len(reqs); n > 0 && !reqs[n-1].done {
			last.Index = int64(reqs[n-1].idx)
		}
		cerr = w.CloseWithLastQueuedRecord(last)
	} else {
		cerr = w.Close()
	}
	if cerr != nil && len(s.plan.Faults) == 0 {
		s.fail("record-write", "Close failed without injected fault: %v", cerr)
	}
	// After Close returned no waiter may remain blocked.
	for _, r := range reqs {
		if !r.done {
			if s.cfg.ExternalQ && cerr != nil {
				continue // with an external queue a failed Close reports through the callback only for the last record
			}
			s.fail("sync-ack", "Close returned (err=%v) but the sync waiter of record %d was never released", cerr, r.idx)
		}
	}
	waiters.Wait()
	if cerr == nil && !failed {
		if got := d.SyncedPrefixLen(recPath); len(s.end) > 0 && int64(got) < s.end[len(s.end)-1] {
			s.fail("sync-ack", "Close returned nil but only %d of %d bytes are durable", got, s.end[len(s.end)-1])
		}
	}
}
