package engine

import (
	"errors"
	"fmt"
	"os"
	"runtime/debug"
	"strings"

	"github.com/cockroachdb/pebble/verifsim/simfs"
	"github.com/cockroachdb/pebble/verifsim/simrt"
)

// ---- I/O fault injection (C43) ----
//
// The rules of plan.Faults are armed after the first successful Open and stay
// armed (with their counters) across clean reopens and crashes until the plan
// executes "clearfaults". While they are armed, or while the process still
// carries the consequences of one that fired (a latched WAL error, an iterator
// in error state), an operation may return an error; what it must never do is
// return a result that differs from the model. Fatalf and panics that carry
// the injected error are process crashes: the run continues on a crash image,
// and recovery is held to the ordinary prefix oracle.

// genFaults draws 1-4 fault rules.
func (g *gen) genFaults() []*simfs.Fault {
	type tmpl struct {
		name    string
		kinds   []simfs.OpKind
		classes []simfs.Class
		maxSkip int
	}
	tmpls := []tmpl{
		{"wal-write", []simfs.OpKind{simfs.OpWrite}, []simfs.Class{simfs.ClsWAL}, 200},
		{"wal-sync", []simfs.OpKind{simfs.OpSync}, []simfs.Class{simfs.ClsWAL}, 60},
		{"wal-create", []simfs.OpKind{simfs.OpCreate, simfs.OpReuse, simfs.OpRename}, []simfs.Class{simfs.ClsWAL}, 12},
		{"table-write", []simfs.OpKind{simfs.OpWrite}, []simfs.Class{simfs.ClsTable, simfs.ClsBlob}, 300},
		{"table-sync", []simfs.OpKind{simfs.OpSync}, []simfs.Class{simfs.ClsTable, simfs.ClsBlob}, 60},
		{"table-create", []simfs.OpKind{simfs.OpCreate, simfs.OpLink}, []simfs.Class{simfs.ClsTable, simfs.ClsBlob}, 40},
		{"table-read", []simfs.OpKind{simfs.OpRead}, []simfs.Class{simfs.ClsTable, simfs.ClsBlob}, 400},
		{"table-open", []simfs.OpKind{simfs.OpOpen, simfs.OpStat}, []simfs.Class{simfs.ClsTable, simfs.ClsBlob}, 80},
		{"manifest-write", []simfs.OpKind{simfs.OpWrite, simfs.OpSync}, []simfs.Class{simfs.ClsManifest}, 60},
		{"manifest-create", []simfs.OpKind{simfs.OpCreate}, []simfs.Class{simfs.ClsManifest}, 4},
		{"marker", []simfs.OpKind{simfs.OpCreate, simfs.OpWrite, simfs.OpSync, simfs.OpRename, simfs.OpRemove}, []simfs.Class{simfs.ClsMarker}, 10},
		{"dirsync", []simfs.OpKind{simfs.OpSyncDir}, nil, 60},
		{"remove", []simfs.OpKind{simfs.OpRemove}, nil, 80},
		{"rename", []simfs.OpKind{simfs.OpRename, simfs.OpLink}, nil, 20},
		{"list", []simfs.OpKind{simfs.OpList}, nil, 10},
		{"options", nil, []simfs.Class{simfs.ClsOptions, simfs.ClsTemp}, 20},
		{"any-write", []simfs.OpKind{simfs.OpWrite, simfs.OpSync, simfs.OpSyncDir, simfs.OpCreate}, nil, 600},
		{"any-read", []simfs.OpKind{simfs.OpRead, simfs.OpOpen}, nil, 600},
	}
	n := 1 + g.r.IntN(4)
	var out []*simfs.Fault
	for i := 0; i < n; i++ {
		t := tmpls[g.r.IntN(len(tmpls))]
		f := &simfs.Fault{Name: t.name, Errno: "EIO", Skip: g.r.IntN(t.maxSkip + 1), Count: 1 + g.r.IntN(3)}
		if len(t.kinds) > 0 {
			f.Kinds = simfs.KindMask(t.kinds...)
		} else {
			f.Kinds = ^uint32(0)
		}
		if len(t.classes) > 0 {
			f.Classes = simfs.ClassMask(t.classes...)
		}
		switch g.r.IntN(6) {
		case 0:
			// disk full: every matching write fails for a while
			f.Errno = "ENOSPC"
			f.Count = 3 + g.r.IntN(20)
		case 1:
			// flaky: each matching operation fails with a probability
			f.Prob = 0.05 + 0.3*g.r.Float()
			f.Count = 2 + g.r.IntN(6)
			f.Skip = g.r.IntN(t.maxSkip/4 + 1)
		}
		if f.Kinds&(1<<simfs.OpWrite) != 0 && g.r.IntN(2) == 0 {
			f.Short = true
		}
		out = append(out, f)
	}
	return out
}

// genStalls draws the device misbehaviour of the failover profile: stall
// episodes (operations that take much longer than the failover threshold, on
// the fake clock) and, in some plans, write/sync/create errors, on the WAL
// files of the primary directory and, more rarely, of the secondary.
func (g *gen) genStalls() []*simfs.Fault {
	thr := int64(g.cfg.FailoverThreshUs) * 1000
	var out []*simfs.Fault
	n := 1 + g.r.IntN(4)
	for i := 0; i < n; i++ {
		f := &simfs.Fault{Name: "stall-primary", PathPrefix: "/db/", Classes: simfs.ClassMask(simfs.ClsWAL)}
		if g.r.IntN(4) == 0 {
			f.Name, f.PathPrefix = "stall-secondary", "/wal2"
		}
		switch g.r.IntN(4) {
		case 0:
			f.Kinds = simfs.KindMask(simfs.OpSync)
		case 1:
			f.Kinds = simfs.KindMask(simfs.OpWrite)
		case 2:
			f.Kinds = simfs.KindMask(simfs.OpCreate, simfs.OpReuse, simfs.OpRename, simfs.OpSyncDir)
			f.Classes = 0
		default:
			f.Kinds = simfs.KindMask(simfs.OpSync, simfs.OpWrite, simfs.OpCreate, simfs.OpReuse)
		}
		f.Skip = g.r.IntN(40)
		f.Count = 1 + g.r.IntN(6)
		f.DelayNs = thr * int64(2+g.r.IntN(30))
		if g.r.IntN(5) == 0 {
			// an error instead of a stall
			f.DelayNs = 0
			f.Errno = "EIO"
			f.Name = strings.Replace(f.Name, "stall", "error", 1)
			f.Count = 1 + g.r.IntN(2)
		}
		out = append(out, f)
	}
	return out
}

// genMarkerFaults draws 1-2 rules that fail operations on marker files (format
// version and manifest markers) or directory syncs (fmv profile, C40).
func (g *gen) genMarkerFaults() []*simfs.Fault {
	var out []*simfs.Fault
	n := 1 + g.r.IntN(2)
	for i := 0; i < n; i++ {
		f := &simfs.Fault{Name: "marker", Errno: "EIO", Skip: g.r.IntN(12), Count: 1 + g.r.IntN(2),
			Kinds: simfs.KindMask(simfs.OpCreate, simfs.OpWrite, simfs.OpSync), Classes: simfs.ClassMask(simfs.ClsMarker)}
		if g.r.IntN(4) == 0 {
			f.Name, f.Kinds, f.Classes = "dirsync", simfs.KindMask(simfs.OpSyncDir), 0
			f.Skip = g.r.IntN(40)
		}
		out = append(out, f)
	}
	return out
}

// genSyncFaults draws 1-2 rules that fail a few directory syncs or file syncs
// of tables, blob files or the MANIFEST (flushdur profile, C12).
func (g *gen) genSyncFaults() []*simfs.Fault {
	var out []*simfs.Fault
	n := 1 + g.r.IntN(2)
	for i := 0; i < n; i++ {
		f := &simfs.Fault{Errno: "EIO", Skip: g.r.IntN(30), Count: 1 + g.r.IntN(2)}
		switch g.r.IntN(3) {
		case 0:
			f.Name, f.Kinds = "dirsync", simfs.KindMask(simfs.OpSyncDir)
		case 1:
			f.Name, f.Kinds, f.Classes = "table-sync", simfs.KindMask(simfs.OpSync), simfs.ClassMask(simfs.ClsTable, simfs.ClsBlob)
		default:
			f.Name, f.Kinds, f.Classes = "manifest-sync", simfs.KindMask(simfs.OpSync), simfs.ClassMask(simfs.ClsManifest)
		}
		out = append(out, f)
	}
	return out
}

// genDelays draws 1-2 stall rules for the crash profiles: a few syncs of the
// MANIFEST, of tables or of directories take tens of simulated milliseconds.
// The stalled job sleeps on the fake clock while every other task goes on, so
// the window between "edit written" and "edit durable" (and the like) is held
// open across many disk mutations - and crash forks land inside it.
func (g *gen) genDelays() []*simfs.Fault {
	var out []*simfs.Fault
	n := 1 + g.r.IntN(2)
	for i := 0; i < n; i++ {
		f := &simfs.Fault{Skip: g.r.IntN(25), Count: 1 + g.r.IntN(4), DelayNs: int64(1+g.r.IntN(50)) * 1e6}
		switch g.r.IntN(4) {
		case 0, 1:
			f.Name, f.Kinds, f.Classes = "stall-manifest", simfs.KindMask(simfs.OpSync, simfs.OpWrite), simfs.ClassMask(simfs.ClsManifest)
		case 2:
			f.Name, f.Kinds, f.Classes = "stall-table-sync", simfs.KindMask(simfs.OpSync), simfs.ClassMask(simfs.ClsTable, simfs.ClsBlob)
		default:
			f.Name, f.Kinds = "stall-dirsync", simfs.KindMask(simfs.OpSyncDir)
		}
		out = append(out, f)
	}
	return out
}

// allFaults = the plan's rules plus the one-shot rules armed by "armfault" ops.
func (h *dbHarness) allFaults() []*simfs.Fault {
	if len(h.dynFaults) == 0 {
		return h.plan.Faults
	}
	return append(append([]*simfs.Fault(nil), h.plan.Faults...), h.dynFaults...)
}

// armFaultTemplates are the one-shot rules an "armfault" op can install right
// before an operation: the N-th matching disk operation from now fails. This
// places faults inside the operations that create in-flight state (the reads
// an ingest's overlap check does, the writes of a flush, ...) instead of
// hoping that a counter-based rule happens to fire there.
var armFaultTemplates = map[string]struct {
	kinds   []simfs.OpKind
	classes []simfs.Class
}{
	"table-read":     {[]simfs.OpKind{simfs.OpRead}, []simfs.Class{simfs.ClsTable, simfs.ClsBlob}},
	"table-open":     {[]simfs.OpKind{simfs.OpOpen, simfs.OpStat}, []simfs.Class{simfs.ClsTable, simfs.ClsBlob}},
	"table-write":    {[]simfs.OpKind{simfs.OpWrite}, []simfs.Class{simfs.ClsTable, simfs.ClsBlob}},
	"table-sync":     {[]simfs.OpKind{simfs.OpSync}, []simfs.Class{simfs.ClsTable, simfs.ClsBlob}},
	"table-create":   {[]simfs.OpKind{simfs.OpCreate, simfs.OpLink}, []simfs.Class{simfs.ClsTable, simfs.ClsBlob}},
	"manifest-write": {[]simfs.OpKind{simfs.OpWrite, simfs.OpSync}, []simfs.Class{simfs.ClsManifest}},
	"dirsync":        {[]simfs.OpKind{simfs.OpSyncDir}, nil},
	"wal-write":      {[]simfs.OpKind{simfs.OpWrite}, []simfs.Class{simfs.ClsWAL}},
	"wal-sync":       {[]simfs.OpKind{simfs.OpSync}, []simfs.Class{simfs.ClsWAL}},
	"remove":         {[]simfs.OpKind{simfs.OpRemove}, nil},
}

var armFaultNames = []string{"table-read", "table-read", "table-read", "table-open", "table-write", "table-sync", "table-create", "manifest-write", "dirsync", "wal-write", "wal-sync", "remove"}

// execArmStall installs a one-shot stall: the next sync (or write) of the
// named file class sleeps N simulated milliseconds. Any profile may use it.
func (h *dbHarness) execArmStall(op *DBOp) {
	t, ok := armFaultTemplates[op.Mode]
	if !ok {
		simrt.Fail("tooling:badop", "unknown armstall template "+op.Mode)
	}
	f := &simfs.Fault{Name: "armed-stall-" + op.Mode, Skip: 0, Count: 1, Kinds: simfs.KindMask(t.kinds...), DelayNs: int64(op.N) * 1e6}
	if len(t.classes) > 0 {
		f.Classes = simfs.ClassMask(t.classes...)
	}
	h.dynFaults = append(h.dynFaults, f)
	if !h.faultProfile() || h.faultsArmed {
		h.disk.SetFaults(h.allFaults())
	}
}

func (h *dbHarness) execArmFault(op *DBOp) {
	if !h.faultProfile() || h.faultsStopped {
		return
	}
	t, ok := armFaultTemplates[op.Mode]
	if !ok {
		simrt.Fail("tooling:badop", "unknown armfault template "+op.Mode)
	}
	f := &simfs.Fault{Name: "armed-" + op.Mode, Errno: "EIO", Skip: op.N, Count: 1, Kinds: simfs.KindMask(t.kinds...)}
	if len(t.classes) > 0 {
		f.Classes = simfs.ClassMask(t.classes...)
		// the store's own files: reads of a table that is about to be ingested
		// (ext/...) would otherwise use up the count before the operation
		// touches the LSM
		f.PathPrefix = "/db/"
	}
	h.dynFaults = append(h.dynFaults, f)
	h.armFaults()
}

func (h *dbHarness) faultProfile() bool { return h.plan.Profile == "iofault" }

// armFaults installs the plan's rules on the current disk (after an Open).
func (h *dbHarness) armFaults() {
	if !h.faultProfile() || h.faultsStopped || len(h.allFaults()) == 0 {
		return
	}
	h.disk.SetFaults(h.allFaults())
	h.faultsArmed = true
}

// suspendFaults switches injection off and returns the function that switches
// it back on: the oracle's own reads must not be failed.
func (h *dbHarness) suspendFaults() func() {
	if !h.faultsArmed {
		return func() {}
	}
	d := h.disk
	d.ClearFaults()
	return func() {
		if !h.faultsStopped && h.disk == d {
			d.SetFaults(h.allFaults())
		}
	}
}

// stopFaults: "the faults stop".
func (h *dbHarness) stopFaults() {
	h.faultsStopped = true
	h.faultsArmed = false
	h.disk.ClearFaults()
}

// harvestFaultStats accumulates what fired on a disk that is about to be
// replaced by a crash image.
func (h *dbHarness) harvestFaultStats(d *simfs.Disk) {
	for k, v := range d.St.FaultFired {
		h.count("fault."+k, int64(v))
		h.count("faults_fired", int64(v))
	}
	d.St.FaultFired = map[string]int{}
	h.delays += d.St.Delays
	d.St.Delays = 0
}

// errorsTolerated reports whether an operation may fail right now.
func (h *dbHarness) errorsTolerated() bool {
	// Armed rules alone excuse nothing (and stalls never do): an operation
	// may fail only once an injected error has actually been returned to this
	// incarnation.
	return h.inc != nil && h.inc.FaultFired
}

// onPanic is simrt's panic hook: Pebble panics on some unrecoverable I/O
// outcomes (a failed WAL write, for example). A panic that carries an injected
// error, in an incarnation in which a fault fired, is a process crash.
func (h *dbHarness) onPanic(t *simrt.Task, r any) bool {
	if t != nil && t.Inc != nil && t.Inc == h.rotInc {
		// reading a damaged file made Pebble panic: fail-stop, not silent
		h.count("rot.panic @ "+panicSite(string(debug.Stack())), 1)
		if !t.Inc.Dead {
			simrt.Kill(t.Inc)
		}
		simrt.Wake(rotWaitKey)
		return true
	}
	if t == nil || t.Inc == nil || t.Inc != h.inc || !t.Inc.FaultFired {
		return false
	}
	injected := false
	switch v := r.(type) {
	case error:
		injected = simfs.IsInjected(v) || strings.Contains(v.Error(), "simfs: injected")
	default:
		injected = strings.Contains(fmt.Sprint(v), "simfs: injected")
	}
	if !injected {
		if !h.faultProfile() {
			return false
		}
		// Any other panic after an injected fault is fail-stop behaviour: the
		// process dies, nothing wrong is returned, and recovery is held to the
		// usual oracle. C43 speaks of wrong results and inconsistent state;
		// availability after a fault is not judged, because rare assertion
		// sites on Pebble's error paths would otherwise make the check raise
		// alarms on a tree where the property holds (DESIGN.md 12.4 lists the
		// sites observed). Two exceptions:
		//  - the sites of defects that were repaired in /repo are watched: a
		//    panic there is reported again (a fixed finding suppresses nothing);
		//  - the recorded finding "background jobs outlive a failed Open" is
		//    printed as KNOWN-FINDING when it is seen.
		msg := fmt.Sprint(r)
		if i := strings.IndexByte(msg, '\n'); i >= 0 {
			msg = msg[:i]
		}
		if len(msg) > 60 {
			msg = msg[:60]
		}
		stack := string(debug.Stack())
		site := panicSite(stack)
		if os.Getenv("VERIF_DEBUG") != "" {
			fmt.Fprintf(os.Stderr, "panic after fault: %v\n%s\n", r, stack)
		}
		h.count("failstop_after_fault:"+msg+" @ "+site, 1)
		switch {
		case h.opening || h.openFailed:
			h.addKnown("C43:background-job-outlives-failed-open")
		case strings.Contains(stack, "(*fileBufferedWritable).Abort") && strings.Contains(stack, "blob.(*FileWriter).Close"),
			strings.Contains(stack, "(*BufferPool).Release") && strings.Contains(stack, "runBlobFileRewriteLocked"),
			strings.Contains(stack, "(*fileCacheHandle).Evict") && strings.Contains(fmt.Sprint(r), "(blob)") && h.stat["ev.compaction.blob-file-rewrite"] > 0:
			simrt.FailNoPark("oracle:panic-after-fault", fmt.Sprintf("a defect that was repaired in /repo is back: after an injected I/O error the process panics (%v) in %s\n%s", r, site, stack))
			return true
		}
	}
	h.count("panic.crash", 1)
	if !t.Inc.Dead {
		simrt.Kill(t.Inc)
		simrt.Wake(h.rootKeyAddr())
	}
	return true
}

// dropGroup forgets a group that never reached the store.
func (h *dbHarness) dropGroup(gi *groupInfo) {
	for i, g := range h.groups {
		if g == gi {
			h.groups = append(h.groups[:i], h.groups[i+1:]...)
			return
		}
	}
}

// resolveFailed settles a write (ingest, excise) that returned an error under
// fault injection: with injection suspended the store is read in full and must
// equal the model either without the group (it is then forgotten) or with it.
// Anything else is a wrong result.
func (h *dbHarness) resolveFailed(gi *groupInfo, what string, err error) {
	h.opErr(what, err) // a violation in a fault-free run
	resume := h.suspendFaults()
	defer resume()
	pts, spans, rerr := readAll(h.db)
	if rerr != nil {
		// The store cannot be read even without injection (a latched error):
		// treat the process as failed and let recovery decide.
		h.count("fault.unreadable_after_failed_write", 1)
		h.crashHere()
	}
	without := h.model.Latest()
	dWithout := diffState(without, pts, spans)
	if dWithout == "" {
		h.count("fault.failed_write_not_applied", 1)
		h.dropGroup(gi)
		return
	}
	with := without.Clone()
	with.ApplyGroup(gi.g)
	if d := diffState(with, pts, spans); d != "" {
		Violation("iofault", "after %s returned %q the store equals neither the state without the operation (%s) nor the state with it (%s)", what, err, dWithout, d)
	}
	// Applied although it reported failure: its durability is unknowable from
	// outside, which is exactly the situation of an operation in flight at a
	// crash - so the process is crashed here and recovery is judged with this
	// group as the in-flight one.
	h.count("fault.failed_write_applied", 1)
	h.crashHere()
}

var _ = errors.Is

// panicSite extracts the innermost Pebble function below the panic call from a
// stack dump taken inside the recovering deferred function.
func panicSite(stack string) string {
	lines := strings.Split(stack, "\n")
	seenPanic := false
	for _, l := range lines {
		if strings.HasPrefix(l, "panic(") {
			seenPanic = true
			continue
		}
		if !seenPanic || strings.HasPrefix(l, "\t") {
			continue
		}
		if strings.HasPrefix(l, "github.com/cockroachdb/pebble") && !strings.Contains(l, "/verifsim/") {
			if i := strings.LastIndexByte(l, '('); i > 0 {
				l = l[:i]
			}
			return strings.TrimPrefix(l, "github.com/cockroachdb/pebble")
		}
	}
	return "?"
}
