package engine

import (
	"flag"
	"testing"
)

var (
	fEngine  = flag.String("sim.engine", "", "engine name")
	fProfile = flag.String("sim.profile", "", "profile name")
	fTier    = flag.String("sim.tier", "quick", "quick|thorough")
	fSeed    = flag.Uint64("sim.seed", 1, "first run seed")
	fCount   = flag.Int("sim.count", 1, "number of consecutive seeds")
	fPlan    = flag.String("sim.plan", "", "execute this plan file instead of generating from seeds")
	fOut     = flag.String("sim.out", "", "append JSON result lines to this file (default stdout)")
	fKeep    = flag.Bool("sim.keepplan", false, "include the executed plan in every result")
	fInject  = flag.String("sim.inject", "", "machinery self-test: make the harness misbehave on purpose")
	fTrace   = flag.String("sim.trace", "", "write the full scheduler/event trace of the run to this file")
)

// TestSim is the entry point used by /verif/check; it is not a unit test.
func TestSim(t *testing.T) {
	if *fEngine == "" && *fPlan == "" {
		t.Skip("no -sim.engine / -sim.plan given")
	}
	Main(t, *fEngine, *fProfile, *fTier, *fSeed, *fCount, *fPlan, *fOut, *fKeep, *fTrace, *fInject)
}
