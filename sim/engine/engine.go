// Package engine holds the simulation engines (whole-DB and component) and
// the process entry point used by the driver (/verif/check).
package engine

import (
	"encoding/json"
	"fmt"
	"os"
	"sort"
	"strconv"
	"strings"
	"testing"
	"testing/synctest"
	"time"

	"github.com/cockroachdb/pebble/verifsim/simfs"
	"github.com/cockroachdb/pebble/verifsim/simrt"
)

// Sched is the schedule part of a plan.
type Sched struct {
	Policy     string  `json:"policy"` // random sticky pct starve
	Seed       uint64  `json:"seed"`
	Sticky     float64 `json:"sticky,omitempty"`
	YieldProb  float64 `json:"yield_prob"`
	AtomicProb float64 `json:"atomic_prob,omitempty"`
	PCTDepth   int     `json:"pct_depth,omitempty"`
	PCTHorizon int     `json:"pct_horizon,omitempty"`
	StarveMod  uint32  `json:"starve_mod,omitempty"`
	StarveRem  uint32  `json:"starve_rem,omitempty"`
	StarveFrom int     `json:"starve_from,omitempty"`
	StarveTo   int     `json:"starve_to,omitempty"`
}

func (s Sched) simCfg() simrt.Config {
	c := simrt.Config{YieldProb: s.YieldProb, AtomicProb: s.AtomicProb, Sticky: s.Sticky, PCTDepth: s.PCTDepth, PCTHorizon: s.PCTHorizon,
		StarveMod: s.StarveMod, StarveRem: s.StarveRem, StarveFrom: s.StarveFrom, StarveTo: s.StarveTo}
	switch s.Policy {
	case "sticky":
		c.Policy = simrt.PolSticky
	case "pct":
		c.Policy = simrt.PolPCT
	case "starve":
		c.Policy = simrt.PolStarve
	default:
		c.Policy = simrt.PolRandom
	}
	return c
}

// genSched draws a schedule spec.
func genSched(r *simrt.Rng, atomics bool) Sched {
	s := Sched{Seed: r.Next()}
	switch r.IntN(10) {
	case 0, 1, 2:
		s.Policy = "random"
	case 3, 4, 5, 6:
		s.Policy = "sticky"
		s.Sticky = []float64{0.5, 0.8, 0.95, 0.99, 1.0}[r.IntN(5)]
	case 7, 8:
		s.Policy = "pct"
		s.PCTDepth = 1 + r.IntN(4)
		s.PCTHorizon = []int{500, 3000, 20000, 100000}[r.IntN(4)]
	default:
		s.Policy = "starve"
		s.StarveMod = uint32(2 + r.IntN(4))
		s.StarveRem = uint32(r.IntN(int(s.StarveMod)))
		s.StarveFrom = r.IntN(5000)
		s.StarveTo = s.StarveFrom + 200 + r.IntN(20000)
	}
	s.YieldProb = []float64{0.01, 0.05, 0.2, 0.5, 1.0}[r.IntN(5)]
	if atomics {
		s.AtomicProb = []float64{0, 0.02, 0.1, 0.3, 0.7}[r.IntN(5)]
	}
	return s
}

// Plan is everything that determines one run. A plan generated from a seed is
// recorded in the result so that it can be shrunk and replayed.
type Plan struct {
	Engine  string          `json:"engine"`
	Profile string          `json:"profile"`
	Seed    uint64          `json:"seed"`
	Tier    string          `json:"tier,omitempty"`
	Sched   Sched           `json:"sched"`
	Cfg     json.RawMessage `json:"cfg,omitempty"`
	Ops     json.RawMessage `json:"ops,omitempty"`
	Faults  []*simfs.Fault  `json:"faults,omitempty"`
	// Inject is used by self-tests of the machinery only: it makes the engine
	// misbehave on purpose (e.g. "model-drop-write") to prove that the oracle
	// fires and that shrinking and replay work.
	Inject string `json:"inject,omitempty"`
}

// Result is one line of engine output.
type Result struct {
	Engine  string `json:"engine"`
	Profile string `json:"profile"`
	Seed    uint64 `json:"seed"`
	// Status: ok | violation | inconclusive | tooling
	Status string `json:"status"`
	// Class is the stable violation class used by the shrinker ("oracle:get",
	// "panic", "deadlock", ...).
	Class string   `json:"class,omitempty"`
	Msg   string   `json:"msg,omitempty"`
	Known []string `json:"known,omitempty"` // known-finding signatures matched in this run
	// Counters measured during the run (steps, fake_ns, fault and probe counts).
	Stats      map[string]int64 `json:"stats,omitempty"`
	SchedHash  string           `json:"sched_hash,omitempty"`
	CaseHash   string           `json:"case_hash,omitempty"`
	Nontrivial bool             `json:"nontrivial,omitempty"`
	Sample     any              `json:"sample,omitempty"`
	Plan       *Plan            `json:"plan,omitempty"`
	WallMs     int64            `json:"wall_ms"`
}

// Engine is one simulation engine.
type Engine interface {
	// Generate derives the plan of a run from its seed.
	Generate(profile string, seed uint64, tier string) (*Plan, error)
	// Execute runs a plan inside the current synctest bubble (called from
	// within synctest.Test) and fills res.
	Execute(t *testing.T, plan *Plan, res *Result)
}

var engines = map[string]Engine{}

func Register(name string, e Engine) { engines[name] = e }

// Violation aborts the current run with an oracle failure. It must be called
// from a task.
func Violation(class, format string, args ...any) {
	simrt.Fail("oracle:"+class, fmt.Sprintf(format, args...))
}

// RunPlan executes one plan in its own bubble and returns the result.
func RunPlan(t *testing.T, plan *Plan, keepPlan bool) *Result {
	res := &Result{Engine: plan.Engine, Profile: plan.Profile, Seed: plan.Seed, Stats: map[string]int64{}}
	e := engines[plan.Engine]
	if e == nil {
		res.Status, res.Msg = "tooling", "unknown engine "+plan.Engine
		return res
	}
	start := time.Now()
	func() {
		defer func() {
			if r := recover(); r != nil {
				s := fmt.Sprint(r)
				if strings.HasPrefix(s, "deadlock: main bubble goroutine has exited") {
					return // expected: tasks of dead incarnations stay parked
				}
				res.Status, res.Class, res.Msg = "tooling", "tooling:panic", s
			}
		}()
		synctest.Test(t, func(t *testing.T) {
			simrt.PanicHook = nil
			e.Execute(t, plan, res)
		})
	}()
	res.WallMs = time.Since(start).Milliseconds()
	if res.Status == "" {
		res.Status = "ok"
	}
	if keepPlan || res.Status != "ok" {
		res.Plan = plan
	}
	return res
}

// finish converts a simrt result into the Result status fields.
func finish(res *Result, r simrt.Result, s *simrt.Sim) {
	res.Stats["steps"] += int64(s.Steps)
	res.Stats["yields"] += int64(s.Yields)
	res.Stats["tasks"] += int64(s.Spawned)
	res.SchedHash = fmt.Sprintf("%016x", s.Hash())
	if res.Status != "" {
		return
	}
	switch {
	case r.FailKind == "":
	case r.FailKind == "stepcap":
		res.Status, res.Class, res.Msg = "inconclusive", "stepcap", r.FailMsg
	case strings.HasPrefix(r.FailKind, "tooling"):
		res.Status, res.Class, res.Msg = "tooling", r.FailKind, r.FailMsg
	case strings.HasPrefix(r.FailKind, "inconclusive"):
		res.Status, res.Class, res.Msg = "inconclusive", r.FailKind, r.FailMsg
	default:
		res.Status, res.Class, res.Msg = "violation", r.FailKind, r.FailMsg
	}
}

// Main is the process entry point, called from TestSim.
func Main(t *testing.T, engine, profile, tier string, seed uint64, count int, planFile, outFile string, keepPlan bool, trace string, inject string) {
	if v, err := strconv.Atoi(os.Getenv("VERIF_TRACE_DEPTH")); err == nil && v > 0 {
		simrt.TraceDepth = v
	}
	var out *os.File = os.Stdout
	if outFile != "" {
		f, err := os.OpenFile(outFile, os.O_CREATE|os.O_WRONLY|os.O_APPEND, 0644)
		if err != nil {
			t.Fatal(err)
		}
		defer f.Close()
		out = f
	}
	emit := func(r *Result) {
		b, err := json.Marshal(r)
		if err != nil {
			t.Fatal(err)
		}
		out.Write(append(b, '\n'))
	}
	traceFile = trace
	if planFile != "" {
		b, err := os.ReadFile(planFile)
		if err != nil {
			t.Fatal(err)
		}
		var p Plan
		if err := json.Unmarshal(b, &p); err != nil {
			t.Fatal(err)
		}
		emit(RunPlan(t, &p, keepPlan))
		return
	}
	e := engines[engine]
	if e == nil {
		names := make([]string, 0)
		for k := range engines {
			names = append(names, k)
		}
		sort.Strings(names)
		t.Fatalf("unknown engine %q (have %v)", engine, names)
	}
	for i := 0; i < count; i++ {
		s := seed + uint64(i)
		p, err := e.Generate(profile, s, tier)
		if err != nil {
			emit(&Result{Engine: engine, Profile: profile, Seed: s, Status: "tooling", Msg: err.Error()})
			continue
		}
		p.Inject = inject
		emit(RunPlan(t, p, keepPlan))
	}
}

var traceFile string

func mustJSON(v any) json.RawMessage {
	b, err := json.Marshal(v)
	if err != nil {
		panic(err)
	}
	return b
}

func writeFile(path string, b []byte) {
	if err := os.WriteFile(path, b, 0644); err != nil {
		fmt.Fprintln(os.Stderr, "write", path, err)
	}
}
