package engine

import (
	"fmt"
	"sort"

	"github.com/cockroachdb/pebble"
	"github.com/cockroachdb/pebble/sstable"
	"github.com/cockroachdb/pebble/verifsim/kvmodel"
)

// snapObj is an open snapshot (classic or eventually-file-only).
type snapObj struct {
	s    *pebble.Snapshot
	efos *pebble.EventuallyFileOnlySnapshot
	pos  int
	// spans excised after the snapshot was taken (classic snapshots may lose
	// data inside them: the documented exception of C03)
	excised [][2]string
	ranges  [][2]string // EFOS protected ranges
}

func (s *snapObj) reader() pebble.Reader {
	if s.efos != nil {
		return s.efos
	}
	return s.s
}

// iterObj is an open iterator together with its reference iterator.
type iterObj struct {
	it *pebble.Iterator
	m  *kvmodel.Iter
	st *kvmodel.State
	// baseState is the committed state under an indexed-batch iterator
	baseState *kvmodel.State
	opts      IterOpts
	what      string
	snap      *snapObj
	batch     *batchObj
}

// batchObj is an open indexed batch.
type batchObj struct {
	b   *pebble.Batch
	ops []kvmodel.Op
}

func (h *dbHarness) pebbleIterOpts(o *IterOpts) *pebble.IterOptions {
	io := &pebble.IterOptions{}
	if o == nil {
		return io
	}
	if o.Lower != "" {
		io.LowerBound = []byte(o.Lower)
	}
	if o.Upper != "" {
		io.UpperBound = []byte(o.Upper)
	}
	switch o.KeyTypes {
	case 1:
		io.KeyTypes = pebble.IterKeyTypeRangesOnly
	case 2:
		io.KeyTypes = pebble.IterKeyTypePointsAndRanges
	}
	if o.Mask != "" && o.KeyTypes == 2 {
		io.RangeKeyMasking.Suffix = []byte(o.Mask)
		if o.MaskFilt && h.cfg.BlockPropCollector {
			io.RangeKeyMasking.Filter = func() pebble.BlockPropertyFilterMask { return sstable.NewTestKeysMaskingFilter() }
		}
	}
	io.OnlyReadGuaranteedDurable = o.Durable
	return io
}

func modelCfg(o *IterOpts) kvmodel.IterCfg {
	if o == nil {
		return kvmodel.IterCfg{}
	}
	c := kvmodel.IterCfg{Lower: o.Lower, Upper: o.Upper, KeyTypes: o.KeyTypes}
	if o.KeyTypes == 2 {
		c.Mask = o.Mask
	}
	return c
}

func inExcised(k string, spans [][2]string) bool {
	for _, s := range spans {
		if kvmodel.Compare(s[0], k) <= 0 && kvmodel.Compare(k, s[1]) < 0 {
			return true
		}
	}
	return false
}

// noteExcise records an excise for every open classic snapshot and iterator
// over one (the documented exception of C03).
func (h *dbHarness) noteExcise(start, end string) {
	for _, s := range h.snaps {
		if s.efos == nil {
			s.excised = append(s.excised, [2]string{start, end})
		}
	}
}

// stateFor returns the model state a reader created now on src would see.
func (h *dbHarness) statePos(snap *snapObj) int {
	if snap != nil {
		return snap.pos
	}
	return h.model.Len()
}

// ---- snapshot ops ----

func (h *dbHarness) execSnap(op *DBOp) {
	switch op.K {
	case "snap":
		if len(h.snaps) >= 6 {
			return
		}
		h.snaps[op.ID] = &snapObj{s: h.db.NewSnapshot(), pos: h.model.Len()}
	case "snapclose":
		s := h.snaps[op.ID]
		if s == nil {
			return
		}
		// iterators over the snapshot must be closed first
		for _, id := range sortedIDs(h.iters) {
			if h.iters[id].snap == s {
				h.closeIter(id)
			}
		}
		delete(h.snaps, op.ID) // before Close: see closeIter
		var err error
		if s.efos != nil {
			err = s.efos.Close()
		} else {
			err = s.s.Close()
		}
		if err != nil {
			h.opErr("snapshot-close", err)
		}
	case "snapget":
		s := h.snaps[op.ID]
		if s == nil {
			return
		}
		if inExcised(op.Key, s.excised) || !s.protects(op.Key) {
			return
		}
		h.checkGet(s.reader(), op.Key, h.model.StateAt(s.pos), fmt.Sprintf("snapshot taken after %d groups, now %d", s.pos, h.model.Len()))
	case "snapscan":
		s := h.snaps[op.ID]
		if s == nil {
			return
		}
		h.checkSnapScan(s, op.IO)
	}
}

// protects reports whether reads of k through the snapshot are covered by the
// property (always for classic snapshots; inside protected ranges for EFOS).
func (s *snapObj) protects(k string) bool {
	if s.efos == nil {
		return true
	}
	return inExcised(k, s.ranges)
}

func (h *dbHarness) checkSnapScan(s *snapObj, o *IterOpts) {
	io := h.pebbleIterOpts(o)
	it, err := s.reader().NewIter(io)
	if err != nil {
		h.opErr("snapshot-newiter", err)
		return
	}
	got, err := scanPoints(it)
	if cerr := it.Close(); err == nil {
		err = cerr
	}
	if err != nil {
		h.opErr("snapshot-scan", err)
		return
	}
	m := kvmodel.NewIter(h.model.StateAt(s.pos), kvmodel.IterCfg{Lower: io2s(io.LowerBound), Upper: io2s(io.UpperBound)})
	var want []kvmodel.KV
	for m.First(); m.Pos.Valid; m.Next() {
		want = append(want, kvmodel.KV{K: m.Pos.Key, V: m.Pos.Val})
	}
	filter := func(in []kvmodel.KV) []kvmodel.KV {
		out := in[:0:0]
		for _, kv := range in {
			if !inExcised(kv.K, s.excised) && s.protects(kv.K) {
				out = append(out, kv)
			}
		}
		return out
	}
	if d := kvmodel.DiffPoints(filter(want), filter(got)); d != "" {
		Violation("snapshot", "scan through a snapshot taken after %d groups (history now has %d) differs from the model at that point: %s", s.pos, h.model.Len(), d)
	}
	h.count("check.snapscan", 1)
}

func io2s(b []byte) string { return string(b) }

// ---- iterator ops ----

func (h *dbHarness) execIter(op *DBOp) {
	switch op.K {
	case "iter":
		if len(h.iters) >= 5 {
			return
		}
		var snap *snapObj
		var rd pebble.Reader = h.db
		what := "DB iterator"
		if op.Ref != 0 {
			snap = h.snaps[op.Ref]
			if snap == nil || snap.efos != nil {
				return
			}
			rd = snap.s
			what = "snapshot iterator"
		}
		o := IterOpts{}
		if op.IO != nil {
			o = *op.IO
		}
		it, err := rd.NewIter(h.pebbleIterOpts(&o))
		if err != nil {
			h.opErr("newiter", err)
			return
		}
		pos := h.statePos(snap)
		st := h.model.StateAt(pos)
		obj := &iterObj{it: it, st: st, m: kvmodel.NewIter(st, modelCfg(&o)), opts: o, snap: snap,
			what: fmt.Sprintf("%s created after %d groups", what, pos)}
		h.iters[op.ID] = obj
	case "iterclose":
		h.closeIter(op.ID)
	case "iterclone":
		src := h.iters[op.Ref]
		if src == nil || len(h.iters) >= 5 {
			return
		}
		co := pebble.CloneOptions{RefreshBatchView: op.Flag}
		o := src.opts
		if op.IO != nil {
			o = *op.IO
			co.IterOptions = h.pebbleIterOpts(&o)
		}
		it, err := src.it.Clone(co)
		if err != nil {
			h.opErr("clone", err)
			return
		}
		st := src.st
		if src.batch != nil && op.Flag {
			st = h.batchState(src.batch, src.baseState)
		}
		h.iters[op.ID] = &iterObj{it: it, st: st, baseState: src.baseState, m: kvmodel.NewIter(st, modelCfg(&o)), opts: o, snap: src.snap, batch: src.batch,
			what: "clone of " + src.what}
	case "iterop":
		obj := h.iters[op.ID]
		if obj == nil {
			return
		}
		h.iterOp(obj, op)
	}
}

func (h *dbHarness) closeIter(id int) {
	obj := h.iters[id]
	if obj == nil {
		return
	}
	// From the moment Close is called the iterator pins nothing: remove it
	// from the table first, so monitors that run while Close is in progress
	// (the file deleter, C39) do not count it as open.
	delete(h.iters, id)
	if err := obj.it.Close(); err != nil {
		h.opErr("iterator-close", err)
	}
}

func sortedIDs[T any](m map[int]T) []int {
	ids := make([]int, 0, len(m))
	for id := range m {
		ids = append(ids, id)
	}
	sort.Ints(ids)
	return ids
}

func (h *dbHarness) closeAllReaders() {
	for _, id := range sortedIDs(h.iters) {
		h.closeIter(id)
	}
	for _, id := range sortedIDs(h.batches) {
		h.batches[id].b.Close()
		delete(h.batches, id)
	}
	for _, id := range sortedIDs(h.snaps) {
		s := h.snaps[id]
		delete(h.snaps, id)
		if s.efos != nil {
			s.efos.Close()
		} else {
			s.s.Close()
		}
	}
}

// iterOp applies one positioning operation to the real and the reference
// iterator and compares the resulting positions.
func (h *dbHarness) iterOp(obj *iterObj, op *DBOp) {
	it, m := obj.it, obj.m
	mode := op.Mode
	key := op.Key
	if obj.snap != nil && len(obj.snap.excised) > 0 && (mode == "seekgelimit" || mode == "seekltlimit" || mode == "nextlimit" || mode == "prevlimit") {
		// positions of a classic snapshot's iterator inside later-excised spans
		// are exempt (C03), so limit pauses cannot be judged either
		return
	}
	absolute := mode == "first" || mode == "last" || mode == "seekge" || mode == "seeklt" || mode == "seekprefixge" ||
		mode == "seekgelimit" || mode == "seekltlimit" || mode == "setbounds" || mode == "setopts"
	if m.NeedSeek && !absolute {
		return
	}
	if !absolute && m.Dir == 0 {
		return // relative op on an unpositioned iterator
	}
	cfg := m.Cfg()
	var valid bool
	state := pebble.IterValid
	useState := false
	switch mode {
	case "first":
		valid = it.First()
		m.First()
	case "last":
		valid = it.Last()
		m.Last()
	case "seekge":
		valid = it.SeekGE([]byte(key))
		m.SeekGE(key)
	case "seeklt":
		valid = it.SeekLT([]byte(key))
		m.SeekLT(key)
	case "seekprefixge":
		// the seek key must lie within the bounds (API contract)
		if (cfg.Lower != "" && kvmodel.Compare(key, cfg.Lower) < 0) || (cfg.Upper != "" && kvmodel.Compare(key, cfg.Upper) >= 0) {
			return
		}
		valid = it.SeekPrefixGE([]byte(key))
		m.SeekPrefixGE(key)
	case "next":
		if m.InPrefix && (m.Exhausted != 0 || m.Dir < 0) {
			return
		}
		if m.Paused() < 0 {
			return
		}
		valid = it.Next()
		m.Next()
	case "prev":
		if m.InPrefix || m.Paused() > 0 {
			return
		}
		valid = it.Prev()
		m.Prev()
	case "nextprefix":
		if m.InPrefix || !m.Pos.Valid || m.Dir <= 0 || cfg.KeyTypes != kvmodel.PointsOnly {
			return
		}
		if cfg.Upper != "" && kvmodel.Suffix(cfg.Upper) != "" {
			return // API contract: NextPrefix requires a suffix-less upper bound
		}
		valid = it.NextPrefix()
		m.NextPrefix()
	case "seekgelimit", "nextlimit":
		limit := op.End
		var cand string
		var ok bool
		if mode == "seekgelimit" {
			c := *m
			c.SeekGE(key)
			cand, ok = c.Pos.Key, c.Pos.Valid
			state = it.SeekGEWithLimit([]byte(key), []byte(limit))
		} else {
			if m.InPrefix || m.Paused() < 0 || (m.Exhausted != 0 && !m.Pos.Valid && m.Paused() == 0) {
				return
			}
			cand, ok = m.PeekFwd()
			state = it.NextWithLimit([]byte(limit))
		}
		useState = true
		switch state {
		case pebble.IterAtLimit:
			if ok && kvmodel.Compare(cand, limit) < 0 {
				Violation("iter-limit", "%s: %s(%q, limit %q) paused at the limit although the next position %q is before the limit", obj.what, mode, key, limit, cand)
			}
			if mode == "seekgelimit" {
				m.NeedSeek = false
				m.InPrefix = false
				lk := key
				if cfg.Lower != "" && kvmodel.Compare(lk, cfg.Lower) < 0 {
					lk = cfg.Lower
				}
				m.PauseFwd(lk, true)
			} else if m.Paused() == 0 {
				m.PauseFwd(m.Pos.Key, false)
			}
			h.count("probe.iter_at_limit", 1)
			h.count("check.iterop", 1)
			return
		default:
			if mode == "seekgelimit" {
				m.SeekGE(key)
			} else {
				m.Next()
			}
			valid = state == pebble.IterValid
		}
	case "seekltlimit", "prevlimit":
		limit := op.End
		var cand string
		var ok bool
		if mode == "seekltlimit" {
			c := *m
			c.SeekLT(key)
			cand, ok = c.Pos.Key, c.Pos.Valid
			state = it.SeekLTWithLimit([]byte(key), []byte(limit))
		} else {
			if m.InPrefix || m.Paused() > 0 || (m.Exhausted != 0 && !m.Pos.Valid && m.Paused() == 0) {
				return
			}
			cand, ok = m.PeekBwd()
			state = it.PrevWithLimit([]byte(limit))
		}
		useState = true
		switch state {
		case pebble.IterAtLimit:
			// backward limits are inclusive lower limits: pausing is allowed only
			// if the previous position is before the limit
			if ok && kvmodel.Compare(cand, limit) >= 0 {
				Violation("iter-limit", "%s: %s(%q, limit %q) paused at the limit although the previous position %q is not before the limit", obj.what, mode, key, limit, cand)
			}
			if mode == "seekltlimit" {
				m.NeedSeek = false
				m.InPrefix = false
				uk := key
				if cfg.Upper != "" && kvmodel.Compare(uk, cfg.Upper) > 0 {
					uk = cfg.Upper
				}
				m.PauseBwd(uk)
			} else if m.Paused() == 0 {
				m.PauseBwd(m.Pos.Key)
			}
			h.count("probe.iter_at_limit", 1)
			h.count("check.iterop", 1)
			return
		default:
			if mode == "seekltlimit" {
				m.SeekLT(key)
			} else {
				m.Prev()
			}
			valid = state == pebble.IterValid
		}
	case "setbounds":
		o := obj.opts
		o.Lower, o.Upper = op.Key, op.End
		obj.opts = o
		var lo, up []byte
		if o.Lower != "" {
			lo = []byte(o.Lower)
		}
		if o.Upper != "" {
			up = []byte(o.Upper)
		}
		it.SetBounds(lo, up)
		m.SetOptions(modelCfg(&o))
		return
	case "setopts":
		o := obj.opts
		if op.IO != nil {
			o = *op.IO
		}
		obj.opts = o
		it.SetOptions(h.pebbleIterOpts(&o))
		if obj.batch != nil {
			// SetOptions refreshes the view of an indexed-batch iterator
			obj.st = h.batchState(obj.batch, obj.baseState)
			obj.m = kvmodel.NewIter(obj.st, modelCfg(&o))
			obj.m.NeedSeek = true
		} else {
			m.SetOptions(modelCfg(&o))
		}
		return
	default:
		return
	}
	_ = useState
	h.count("check.iterop", 1)
	h.compareIterPos(obj, op, valid)
}

func (h *dbHarness) compareIterPos(obj *iterObj, op *DBOp, valid bool) {
	it, m := obj.it, obj.m
	desc := func() string {
		return fmt.Sprintf("%s, options %+v, after %s(%q)", obj.what, obj.opts, op.Mode, op.Key)
	}
	if err := it.Error(); err != nil {
		h.opErr("iterator", err)
		// the position after an error is unspecified until the next absolute
		// positioning call
		m.NeedSeek = true
		return
	}
	// Positions inside spans excised after a classic snapshot are exempt.
	if obj.snap != nil && len(obj.snap.excised) > 0 {
		ex := obj.snap.excised
		if m.Cfg().KeyTypes != kvmodel.PointsOnly {
			// An excise after a classic snapshot may remove or truncate the range
			// keys the snapshot shows (documented exception): positions of
			// range-key iterators over such a snapshot are not comparable.
			obj.m.NeedSeek = true
			return
		}
		if (valid && inExcised(string(it.Key()), ex)) || (m.Pos.Valid && inExcised(m.Pos.Key, ex)) {
			// resynchronise the reference iterator with what the real one shows
			obj.m.NeedSeek = true
			return
		}
	}
	if valid != m.Pos.Valid {
		if valid {
			Violation("iter-pos", "%s: iterator is valid at %q but the model is exhausted", desc(), it.Key())
		}
		Violation("iter-pos", "%s: iterator is exhausted but the model is at %q", desc(), m.Pos.Key)
	}
	if !valid {
		return
	}
	k := string(it.Key())
	cfg := m.Cfg()
	if cfg.Lower != "" && kvmodel.Compare(k, cfg.Lower) < 0 || cfg.Upper != "" && kvmodel.Compare(k, cfg.Upper) >= 0 {
		Violation("iter-bounds", "%s: key %q outside bounds [%q,%q)", desc(), k, cfg.Lower, cfg.Upper)
	}
	if k != m.Pos.Key {
		Violation("iter-pos", "%s: positioned at %q, model at %q", desc(), k, m.Pos.Key)
	}
	hasPoint, hasRange := it.HasPointAndRange()
	if hasPoint != m.Pos.HasPoint || hasRange != m.Pos.HasRange {
		Violation("iter-pos", "%s: at %q HasPointAndRange=(%v,%v), model (%v,%v)", desc(), k, hasPoint, hasRange, m.Pos.HasPoint, m.Pos.HasRange)
	}
	if hasPoint {
		v, err := it.ValueAndErr()
		if err != nil {
			h.opErr("iterator-value", err)
			return
		}
		if string(v) != m.Pos.Val {
			Violation("iter-value", "%s: at %q value %q, model %q", desc(), k, shortv(string(v)), shortv(m.Pos.Val))
		}
	}
	if hasRange {
		s, e := it.RangeBounds()
		got := kvmodel.Span{Start: string(s), End: string(e)}
		for _, rk := range it.RangeKeys() {
			got.Keys = append(got.Keys, kvmodel.RKey{Suf: string(rk.Suffix), Val: string(rk.Value)})
		}
		if d := diffSpans([]kvmodel.Span{m.Pos.Span}, []kvmodel.Span{got}); d != "" {
			Violation("iter-rangekey", "%s: at %q %s", desc(), k, d)
		}
	}
}

// ---- indexed batches ----

// batchState is the state an indexed batch shows on top of base.
func (h *dbHarness) batchState(b *batchObj, base *kvmodel.State) *kvmodel.State {
	st := base.Clone()
	for _, o := range b.ops {
		st.Apply(o)
	}
	return st
}

func (h *dbHarness) execIBatch(op *DBOp) {
	switch op.K {
	case "ibatch":
		if len(h.batches) >= 3 {
			return
		}
		h.batches[op.ID] = &batchObj{b: h.db.NewIndexedBatch()}
	case "ibatchop":
		b := h.batches[op.ID]
		if b == nil || len(op.Sub) == 0 {
			return
		}
		m := h.toModel(&op.Sub[0], b.ops)
		if m.K == "singledel" {
			m.K = "del" // keep the contract trivially satisfied inside uncommitted batches
		}
		apply := applyToBatch
		if h.r.IntN(2) == 0 {
			apply = applyToBatchDeferred
			h.count("probe.ibatch_deferred_op", 1)
		}
		if err := apply(b.b, m); err != nil {
			h.opErr("ibatch-op", err)
			return
		}
		b.ops = append(b.ops, m)
	case "ibatchget":
		b := h.batches[op.ID]
		if b == nil {
			return
		}
		h.checkGet(b.b, op.Key, h.batchState(b, h.model.Latest()), fmt.Sprintf("indexed batch with %d ops over %d committed groups", len(b.ops), h.model.Len()))
		// the batch must not leak into the DB
		h.checkGet(h.db, op.Key, h.model.Latest(), "DB read while an uncommitted indexed batch exists")
	case "ibatchiter":
		b := h.batches[op.ID]
		if b == nil || len(h.iters) >= 5 {
			return
		}
		o := IterOpts{}
		if op.IO != nil {
			o = *op.IO
		}
		it, err := b.b.NewIter(h.pebbleIterOpts(&o))
		if err != nil {
			h.opErr("ibatch-newiter", err)
			return
		}
		base := h.model.Latest()
		st := h.batchState(b, base)
		h.iters[op.Ref] = &iterObj{it: it, st: st, baseState: base, m: kvmodel.NewIter(st, modelCfg(&o)), opts: o, batch: b,
			what: fmt.Sprintf("indexed-batch iterator created with %d batch ops over %d groups", len(b.ops), h.model.Len())}
	case "ibatchcommit", "ibatchclose":
		b := h.batches[op.ID]
		if b == nil {
			return
		}
		for _, id := range sortedIDs(h.iters) {
			if h.iters[id].batch == b {
				h.closeIter(id)
			}
		}
		delete(h.batches, op.ID)
		if op.K == "ibatchclose" {
			if err := b.b.Close(); err != nil {
				h.opErr("ibatch-close", err)
			}
			h.checkScan(h.model.Len())
			return
		}
		gi := h.newGroup("batch", op.C)
		// re-validate single-delete contracts against the committed history
		gi.g.Ops = b.ops
		err := b.b.Commit(writeOpts(op.Sync))
		if err == nil {
			gi.g.SeqNum = uint64(b.b.SeqNum())
		}
		b.b.Close()
		if err != nil {
			h.opErr("ibatch-commit", err)
			return
		}
		gi.sync = op.Sync && !h.cfg.DisableWAL
		h.commitModel(gi)
		h.checkTouched(gi)
	}
}
