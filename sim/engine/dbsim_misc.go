package engine

import (
	"bytes"
	"context"
	"fmt"
	"sort"
	"strings"
	"time"

	"github.com/cockroachdb/pebble"
	"github.com/cockroachdb/pebble/internal/base"
	"github.com/cockroachdb/pebble/internal/manifest"
	"github.com/cockroachdb/pebble/rangekey"
	"github.com/cockroachdb/pebble/record"
	"github.com/cockroachdb/pebble/verifsim/kvmodel"
	"github.com/cockroachdb/pebble/verifsim/simrt"
)

// ---- EFOS (C37) ----

func (h *dbHarness) execEFOS(op *DBOp) {
	switch op.K {
	case "efos":
		if len(h.snaps) >= 6 || !h.exciseSupported() {
			return
		}
		// protected ranges must be ordered and non-overlapping
		var rs [][2]string
		for _, s := range op.Sub {
			rs = append(rs, [2]string{s.Key, s.End})
		}
		sort.Slice(rs, func(i, j int) bool { return kvmodel.Compare(rs[i][0], rs[j][0]) < 0 })
		var merged [][2]string
		for _, r := range rs {
			if n := len(merged); n > 0 && kvmodel.Compare(merged[n-1][1], r[0]) >= 0 {
				if kvmodel.Compare(r[1], merged[n-1][1]) > 0 {
					merged[n-1][1] = r[1]
				}
				continue
			}
			merged = append(merged, r)
		}
		var krs []pebble.KeyRange
		for _, r := range merged {
			krs = append(krs, pebble.KeyRange{Start: []byte(r[0]), End: []byte(r[1])})
		}
		pos := h.model.Len()
		e := h.db.NewEventuallyFileOnlySnapshot(krs)
		h.snaps[op.ID] = &snapObj{efos: e, pos: pos, ranges: merged}
		h.count("probe.efos", 1)
	case "efoswait":
		s := h.snaps[op.ID]
		if s == nil || s.efos == nil {
			return
		}
		if err := s.efos.WaitForFileOnlySnapshot(context.Background(), time.Millisecond); err != nil {
			h.opErr("efos-wait", err)
			return
		}
		h.count("probe.efos_transitioned", 1)
	}
}

// ---- format major version (C40) ----

func (h *dbHarness) execRatchet(op *DBOp) {
	cur := int(h.db.FormatMajorVersion())
	if cur >= fmvNewest {
		return
	}
	target := cur + 1 + op.N%(fmvNewest-cur)
	if target > h.fmvMax {
		h.fmvMax = target
	}
	before := h.db.FormatMajorVersion()
	err := h.db.RatchetFormatMajorVersion(pebble.FormatMajorVersion(target))
	if err != nil {
		h.opErr("ratchet", err)
		// A ratchet that failed part-way may have completed some steps. What the
		// DB reports afterwards is what it will act on (a retry starts from it),
		// so it must be durable like the result of a successful ratchet.
		if v := int(h.db.FormatMajorVersion()); v > cur {
			h.fmvFloors = append(h.fmvFloors, fmvFloor{idx: h.disk.LogLen(), v: v})
			h.count("probe.ratchet_failed_partway", 1)
		}
		return
	}
	after := h.db.FormatMajorVersion()
	if after < before || int(after) < target {
		Violation("fmv", "RatchetFormatMajorVersion(%d) returned nil but the version is %d (was %d)", target, after, before)
	}
	h.cfg.FMV = int(after)
	h.fmvFloors = append(h.fmvFloors, fmvFloor{idx: h.disk.LogLen(), v: int(after)})
	h.count("probe.ratchet", 1)
	h.checkScan(h.model.Len())
}

// ---- checkpoints (C38) ----

func (h *dbHarness) execCheckpoint(op *DBOp) {
	if err := h.disk.MkdirAll("ckpt", 0755); err != nil {
		h.opErr("mkdir", err)
		return
	}
	h.nCkpt++
	dir := fmt.Sprintf("ckpt/%04d", h.nCkpt)
	var copts []pebble.CheckpointOption
	if op.Flag {
		copts = append(copts, pebble.WithFlushedWAL())
	}
	restricted := op.Key != "" && h.exciseSupported()
	if restricted {
		copts = append(copts, pebble.WithRestrictToSpans([]pebble.CheckpointSpan{{Start: []byte(op.Key), End: []byte(op.End)}}))
	}
	n := h.model.Len()
	// The same bookkeeping as for a crash right now: what must be contained.
	c := h.crashCtxAt(h.disk.LogLen())
	c.inflight = nil
	if op.Flag && !h.cfg.DisableWAL {
		c.lo, c.loNoIngest = n, n
	}
	if err := h.db.Checkpoint(dir, copts...); err != nil {
		h.opErr("checkpoint", err)
		return
	}
	opts := h.makeOptionsOn(h.disk)
	opts.EnsureDefaults()
	cdb, err := pebble.Open(dir, opts)
	if err != nil {
		Violation("checkpoint", "opening checkpoint %s failed: %v", dir, err)
	}
	pts, spans, err := readAll(cdb)
	if cerr := cdb.Close(); err == nil {
		err = cerr
	}
	if err != nil {
		Violation("checkpoint", "reading checkpoint %s failed: %v", dir, err)
	}
	if restricted {
		lo, hi := op.Key, op.End
		c.inSpan = func(k string) bool { return kvmodel.Compare(lo, k) <= 0 && kvmodel.Compare(k, hi) < 0 }
	}
	m, desc := h.matchRecovered(c, pts, spans)
	if m == nil {
		Violation("checkpoint", "checkpoint (flushedWAL=%v, restricted=%v) taken after %d groups: %s", op.Flag, restricted, n, desc)
	}
	if m.commuted {
		if m.overlap {
			Violation("checkpoint", "checkpoint contains a durable ingest/excise but lacks an earlier overlapping group")
		}
		h.addKnown("C38:ingest-commutes-past-unsynced-batches")
		h.count("probe.checkpoint_commuted", 1)
	}
	h.count("check.checkpoint", 1)
	if m.j < n {
		h.count("probe.checkpoint_prefix", 1)
	}
	h.disk.RemoveAll(dir)
}

// ---- ScanInternal replay (C45) ----

type scanItem struct {
	seq  uint64
	ord  int // tie-break within one sequence number: range dels, range-key dels/unsets, then points and sets
	kind base.InternalKeyKind
	key  string
	end  string
	val  string
	suf  string
}

func (h *dbHarness) execScanInternal(op *DBOp) {
	var items []scanItem
	n := h.model.Len()
	// The scan runs on the DB or, if the op names one, on an open snapshot
	// (then at the snapshot's position, whatever was written and whichever
	// memtables were rotated since).
	scan := h.db.ScanInternal
	if s := h.snaps[op.Ref]; op.Ref != 0 && s != nil {
		if len(s.excised) > 0 {
			return // C03's documented exception: excised spans may vanish from classic snapshots
		}
		n = s.pos
		if s.efos != nil {
			scan = s.efos.ScanInternal
		} else {
			scan = s.s.ScanInternal
		}
		h.count("probe.scaninternal_on_snapshot", 1)
	}
	err := scan(context.Background(), pebble.ScanInternalOptions{
		IterOptions: pebble.IterOptions{LowerBound: []byte(op.Key), UpperBound: []byte(op.End), KeyTypes: pebble.IterKeyTypePointsAndRanges},
		VisitPointKey: func(key *pebble.InternalKey, value pebble.LazyValue, _ pebble.IteratorLevel) error {
			v, _, err := value.Value(nil)
			if err != nil {
				return err
			}
			items = append(items, scanItem{seq: uint64(key.SeqNum()), ord: 2, kind: key.Kind(), key: string(key.UserKey), val: string(v)})
			return nil
		},
		VisitRangeDel: func(start, end []byte, seqNum base.SeqNum) error {
			items = append(items, scanItem{seq: uint64(seqNum), ord: 0, kind: base.InternalKeyKindRangeDelete, key: string(start), end: string(end)})
			return nil
		},
		VisitRangeKey: func(start, end []byte, keys []rangekey.Key) error {
			for _, k := range keys {
				ord := 2
				if k.Kind() != base.InternalKeyKindRangeKeySet {
					ord = 1
				}
				items = append(items, scanItem{seq: uint64(k.SeqNum()), ord: ord, kind: k.Kind(), key: string(start), end: string(end), suf: string(k.Suffix), val: string(k.Value)})
			}
			return nil
		},
	})
	if err != nil {
		h.opErr("scaninternal", err)
		return
	}
	for _, it := range items {
		if it.ord < 2 || it.kind == base.InternalKeyKindRangeKeySet {
			if it.end != "" && (kvmodel.Suffix(it.key) != "" || kvmodel.Suffix(it.end) != "") && it.kind != base.InternalKeyKindRangeDelete {
				// A range-key fragment truncated at a suffixed table boundary: the
				// public write API (under invariants) refuses suffixed range-key
				// bounds, so this scan cannot be replayed through it.
				h.count("probe.scaninternal_skipped", 1)
				return
			}
		}
	}
	sort.SliceStable(items, func(i, j int) bool {
		if items[i].seq != items[j].seq {
			return items[i].seq < items[j].seq
		}
		return items[i].ord < items[j].ord
	})
	if err := h.disk.MkdirAll("scan", 0755); err != nil {
		h.opErr("mkdir", err)
		return
	}
	h.nCkpt++
	dir := fmt.Sprintf("scan/%04d", h.nCkpt)
	opts := h.makeOptionsOn(h.disk)
	opts.EnsureDefaults()
	opts.FormatMajorVersion = pebble.FormatNewest
	rdb, err := pebble.Open(dir, opts)
	if err != nil {
		h.opErr("scaninternal-open", err)
		return
	}
	for _, it := range items {
		var err error
		switch it.kind {
		case base.InternalKeyKindSet, base.InternalKeyKindSetWithDelete:
			err = rdb.Set([]byte(it.key), []byte(it.val), nil)
		case base.InternalKeyKindMerge:
			err = rdb.Merge([]byte(it.key), []byte(it.val), nil)
		case base.InternalKeyKindDelete, base.InternalKeyKindDeleteSized, base.InternalKeyKindSingleDelete:
			err = rdb.Delete([]byte(it.key), nil)
		case base.InternalKeyKindRangeDelete:
			err = rdb.DeleteRange([]byte(it.key), []byte(it.end), nil)
		case base.InternalKeyKindRangeKeySet:
			err = rdb.RangeKeySet([]byte(it.key), []byte(it.end), []byte(it.suf), []byte(it.val), nil)
		case base.InternalKeyKindRangeKeyUnset:
			err = rdb.RangeKeyUnset([]byte(it.key), []byte(it.end), []byte(it.suf), nil)
		case base.InternalKeyKindRangeKeyDelete:
			err = rdb.RangeKeyDelete([]byte(it.key), []byte(it.end), nil)
		default:
			err = fmt.Errorf("unexpected kind %s from ScanInternal", it.kind)
		}
		if err != nil {
			rdb.Close()
			h.opErr("scaninternal-replay", err)
			return
		}
	}
	pts, spans, err := readAll(rdb)
	if cerr := rdb.Close(); err == nil {
		err = cerr
	}
	h.disk.RemoveAll(dir)
	if err != nil {
		h.opErr("scaninternal-read", err)
		return
	}
	// expected: the source's visible state restricted to the span
	st := h.model.StateAt(n)
	mi := kvmodel.NewIter(st, kvmodel.IterCfg{Lower: op.Key, Upper: op.End, KeyTypes: kvmodel.PointsOnly})
	var want []kvmodel.KV
	for mi.First(); mi.Pos.Valid; mi.Next() {
		want = append(want, kvmodel.KV{K: mi.Pos.Key, V: mi.Pos.Val})
	}
	if d := kvmodel.DiffPoints(want, pts); d != "" {
		Violation("scaninternal", "replaying ScanInternal([%q,%q)) of the state after %d groups into an empty DB: %s", op.Key, op.End, n, d)
	}
	ri := kvmodel.NewIter(st, kvmodel.IterCfg{Lower: op.Key, Upper: op.End, KeyTypes: kvmodel.RangesOnly})
	var wantSpans []kvmodel.Span
	for ri.First(); ri.Pos.Valid; ri.Next() {
		wantSpans = append(wantSpans, ri.Pos.Span)
	}
	if d := diffSpans(wantSpans, spans); d != "" {
		Violation("scaninternal", "replaying ScanInternal([%q,%q)) of the state after %d groups into an empty DB: %s", op.Key, op.End, n, d)
	}
	h.count("check.scaninternal", 1)
	h.count("probe.scaninternal_items", int64(len(items)))
}

// ---- level invariant (C15) ----

func userKeyOf(k pebble.InternalKey) string { return string(k.UserKey) }

// checkLevels runs Pebble's own level checker and an independent walk over the
// version's file metadata.
func (h *dbHarness) checkLevels(what string) {
	if err := h.db.CheckLevels(nil); err != nil {
		Violation("levels", "%s: CheckLevels: %v", what, err)
	}
	levels, err := h.db.SSTables()
	if err != nil {
		h.opErr("sstables", err)
		return
	}
	for l, files := range levels {
		for _, f := range files {
			if kvmodel.Compare(userKeyOf(f.Smallest), userKeyOf(f.Largest)) > 0 {
				Violation("levels", "%s: L%d table %s has smallest %q > largest %q", what, l, f.FileNum, f.Smallest.UserKey, f.Largest.UserKey)
			}
			if f.SmallestSeqNum > f.LargestSeqNum {
				Violation("levels", "%s: L%d table %s has seqnum range [%d,%d]", what, l, f.FileNum, f.SmallestSeqNum, f.LargestSeqNum)
			}
		}
		if l == 0 {
			// L0 files may overlap; nothing can be said from metadata alone (a
			// flushed table may span an ingested table's keys and sequence
			// number without sharing a user key): CheckLevels decides L0.
			continue
		}
		for i := 1; i < len(files); i++ {
			a, b := files[i-1], files[i]
			c := kvmodel.Compare(userKeyOf(a.Largest), userKeyOf(b.Smallest))
			if c > 0 || (c == 0 && !a.Largest.IsExclusiveSentinel()) {
				Violation("levels", "%s: L%d tables %s [..,%q] and %s [%q,..] overlap or are out of order", what, l, a.FileNum, a.Largest.UserKey, b.FileNum, b.Smallest.UserKey)
			}
		}
	}
	h.count("check.levels", 1)
}

// ---- Close releases everything (C47) ----

func (h *dbHarness) checkClosed(what string) {
	// Give exiting goroutines the chance to run to completion.
	for i := 0; i < 50 && h.sim.LiveTasks(h.inc) > 1; i++ {
		simrt.Sleep(10 * time.Millisecond)
	}
	if n := h.sim.LiveTasks(h.inc); n > 1 {
		kinds := h.sim.LiveTaskKinds(h.inc)
		Violation("close-leak", "%s: %d goroutines of the DB are still alive after Close returned: %v", what, n-1, kinds)
	}
	if n, names := h.disk.OpenHandles(); n > 0 {
		Violation("close-leak", "%s: %d file handles still open after Close: %v", what, n, names)
	}
	if l := h.disk.HeldLocks(); len(l) > 0 {
		Violation("close-leak", "%s: file locks still held after Close: %v", what, l)
	}
	h.count("check.closed", 1)
}

// ---- file lifetime (C39) ----

func parseFileNum(path string) (num uint64, kind string, ok bool) {
	base := path
	if i := strings.LastIndex(path, "/"); i >= 0 {
		base = path[i+1:]
	}
	for _, suf := range []string{".sst", ".blob", ".log"} {
		if strings.HasSuffix(base, suf) {
			var n uint64
			if _, err := fmt.Sscanf(strings.TrimSuffix(base, suf), "%d", &n); err == nil {
				return n, suf[1:], true
			}
		}
	}
	return 0, "", false
}

// onRemove is called by the simulated disk right before a file is removed: a
// table or blob file referenced by the current version or by the version an
// open iterator reads from must never be deleted.
func (h *dbHarness) onRemove(path string) {
	if h.db == nil || !strings.HasPrefix(path, "db/") {
		return
	}
	num, kind, ok := parseFileNum(path)
	if !ok {
		return
	}
	if kind == "log" {
		// a WAL at or above the minimum unflushed log number is still needed
		// for recovery (the lock-free accessor: the deleter may run under DB.mu)
		if min := h.db.VerifsimMinUnflushedLogNumRaw(); num >= min {
			Violation("live-file-deleted", "%s is being deleted although the minimum unflushed log number is %d: it is still needed for recovery", path, min)
		}
		// Ground truth that does not rest on Pebble's in-memory bookkeeping:
		// what recovery would need is decided by the MANIFEST as it is durable
		// on disk right now. The largest minimum-unflushed-log number of any
		// durable version edit is an upper bound of what a crash at this
		// instant would recover with; a WAL at or above it holds data that no
		// durable table has yet.
		if dmin, ok := h.durableMinUnflushedLog(); ok && num >= dmin {
			Violation("live-file-deleted", "%s is being deleted or reused although the MANIFEST that is durable at this instant records minimum unflushed log %d: a crash now would need this WAL for recovery", path, dmin)
		}
		h.count("check.remove_wal_not_needed", 1)
		return
	}
	for _, id := range sortedIDs(h.snaps) {
		if s := h.snaps[id]; s.efos != nil && s.efos.VerifsimPinnedFiles()[num] {
			Violation("live-file-deleted", "%s is being deleted although the version pinned by an open file-only snapshot (taken after %d groups) references it", path, s.pos)
		}
	}
	if h.db.VerifsimCurrentFiles()[num] {
		Violation("live-file-deleted", "%s is being deleted although the current version references it", path)
	}
	for _, id := range sortedIDs(h.iters) {
		if h.iters[id].it.VerifsimPinnedFiles()[num] {
			Violation("live-file-deleted", "%s is being deleted although the version pinned by an open iterator (%s) references it\n%s", path, h.iters[id].what, h.iters[id].it.VerifsimDescribe(h.db))
		}
	}
	h.count("check.remove_not_live", 1)
}

// checkNoDeadFiles: once no reader is open and deletions have been processed,
// the directory holds no table or blob file outside the current version, and no
// more obsolete WALs than the recycler may retain.
func (h *dbHarness) checkNoDeadFiles(what string) {
	var lingering []string
	for wait := 0; wait < 120; wait++ {
		lingering = lingering[:0]
		live := h.db.VerifsimCurrentFiles()
		minLog := h.db.VerifsimMinUnflushedLogNum()
		oldLogs := 0
		for _, n := range h.disk.ListNoFault("db") {
			num, kind, ok := parseFileNum(n)
			if !ok {
				continue
			}
			switch kind {
			case "log":
				if num < minLog {
					oldLogs++
				}
			default:
				if !live[num] {
					lingering = append(lingering, n)
				}
			}
		}
		if max := h.opts.MemTableStopWritesThreshold + 1; oldLogs > max {
			lingering = append(lingering, fmt.Sprintf("%d WALs older than the minimum unflushed log %d (the recycler may keep %d)", oldLogs, minLog, max))
		}
		if len(lingering) == 0 {
			h.count("check.no_dead_files", 1)
			return
		}
		if wait == 40 {
			// Releasing the version held by a file-only snapshot (or by an
			// iterator over one) puts its files on the obsolete list but does
			// not start a deletion pass; the next flush or compaction job does.
			// "Deletions have been processed" therefore includes one job: an
			// (empty) flush is the state-neutral way to cause one.
			h.count("probe.lingering_until_next_job", 1)
			if err := h.db.Flush(); err != nil {
				h.opErr("flush", err)
				return
			}
		}
		// deletions are paced and asynchronous: give them (simulated) time
		simrt.Sleep(5 * time.Second)
		simrt.Progress()
	}
	Violation("dead-file-lingers", "%s: with no reader open and after 10 simulated minutes these obsolete files are still in the directory: %v", what, lingering)
}

// durableMinUnflushedLog parses the durable bytes of every MANIFEST in the
// store directory and returns the largest MinUnflushedLogNum any durable
// version edit records.
func (h *dbHarness) durableMinUnflushedLog() (uint64, bool) {
	var max uint64
	found := false
	for _, n := range h.disk.ListNoFault("db") {
		if !strings.HasPrefix(n, "MANIFEST-") {
			continue
		}
		data := h.disk.ReadDurable("db/" + n)
		if len(data) == 0 {
			continue
		}
		rr := record.NewReader(bytes.NewReader(data), 0)
		for {
			r, err := rr.Next()
			if err != nil {
				break
			}
			var ve manifest.VersionEdit
			if err := ve.Decode(r); err != nil {
				break
			}
			found = true
			if v := uint64(ve.MinUnflushedLogNum); v > max {
				max = v
			}
		}
	}
	h.count("check.remove_wal_vs_durable_manifest", 1)
	return max, found
}
