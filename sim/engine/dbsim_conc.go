package engine

import (
	"bytes"
	"context"
	"fmt"
	"io"
	"os"
	"sort"
	"strings"

	"github.com/cockroachdb/pebble"
	"github.com/cockroachdb/pebble/batchrepr"
	"github.com/cockroachdb/pebble/internal/base"
	"github.com/cockroachdb/pebble/record"
	"github.com/cockroachdb/pebble/verifsim/kvmodel"
	"github.com/cockroachdb/pebble/verifsim/simrt"
	"github.com/cockroachdb/pebble/verifsim/simsync"
)

// Concurrent profiles (C06, C07, C42): several client tasks share one DB. The
// history is checked after the run, when every group's sequence number is
// known: every read must equal the model after a prefix of the groups in
// sequence-number order, the prefix must contain every group acknowledged
// before the read began (read-your-writes), must not contain a group whose
// commit began after the read ended, and must not move backwards for one
// reader.

type cGroup struct {
	g         *kvmodel.Group
	seq       uint64
	count     uint32
	client    int
	startStep int
	ackStep   int // -1: never acknowledged
	visAtAck  uint64
	// crash oracle (concurrent committers, C10): disk log length when the
	// commit call started / returned, and whether it was acknowledged durable
	startIdx, ackIdx int
	sync             bool
	// flushedBy is the disk log length at which a Flush, begun after this
	// group was acknowledged, returned (0 = none)
	flushedAt int
}

type cRead struct {
	client     int
	kind       string // get scan rscan snapscan
	key        string
	val        string
	found      bool
	pts        []kvmodel.KV
	flushedWAL bool           // checkpoint reads: taken WithFlushedWAL
	spans      []kvmodel.Span // range keys seen by the same iterator (profiles with range keys)
	hasSpans   bool
	startStep  int
	endStep    int
	// for snapshot reads: the snapshot's creation window
	snapStart, snapEnd  int
	snapID              int
	visBefore, visAfter uint64
}

type concState struct {
	groups []*cGroup
	reads  []*cRead
	snaps  map[int]*concSnap
}

type concSnap struct {
	s          *pebble.Snapshot
	start, end int
}

// step returns the next value of the harness's global event sequence number.
// Exactly one task runs at any time, so these stamps totally order the
// invocation and response events of all clients (scheduler steps would be too
// coarse: a task can finish one operation and start the next within a step).
func (h *dbHarness) step() int { h.evSeq++; return h.evSeq }

// genCommit: writers commit batches with unique tags, readers get/scan/snapshot.
func (g *gen) genCommit(profile string) {
	writers := 2 + g.r.IntN(3)
	readers := 1 + g.r.IntN(2)
	g.cfg.Clients = writers + readers + 1
	g.cfg.MemTableSize = pick(&g.r, []int{2 << 10, 4 << 10, 16 << 10})
	// Half of the plans put range-key operations into the batches; scans then
	// use one combined iterator and the range keys it reports take part in the
	// atomicity / visibility oracle.
	g.cfg.ConcRangeKeys = g.r.IntN(2) == 0
	perW := 4 + g.r.IntN(12)
	if g.tier == "thorough" {
		perW = 4 + g.r.IntN(25)
	}
	for w := 0; w < writers; w++ {
		for i := 0; i < perW; i++ {
			n := 2 + g.r.IntN(5)
			b := DBOp{C: w + 1, K: "batch", Sync: g.r.IntN(4) == 0, Mode: pick(&g.r, []string{"apply", "commit", "commit", "nosyncwait"})}
			for j := 0; j < n; j++ {
				o := g.pointOp(false)
				if g.cfg.ConcRangeKeys && g.r.IntN(4) == 0 {
					o = g.rangeKeyOp()
				}
				if o.K == "logdata" {
					o = DBOp{K: "set", Key: g.key()}
					o.Val, o.VLen = g.val()
				}
				b.Sub = append(b.Sub, o)
			}
			if g.r.IntN(6) == 0 {
				// around / above the large-batch threshold: queued as a flushable batch
				tag, _ := g.val()
				b.Sub = append(b.Sub, DBOp{K: "set", Key: g.key(), Val: tag, VLen: g.cfg.MemTableSize/2 - 200 + g.r.IntN(g.cfg.MemTableSize)})
			}
			g.add(b)
		}
	}
	for r := 0; r < readers; r++ {
		c := writers + 1 + r
		n := 6 + g.r.IntN(14)
		for i := 0; i < n; i++ {
			switch x := g.r.IntN(10); {
			case x < 3:
				g.add(DBOp{C: c, K: "cget", Key: g.key()})
			case x < 6:
				g.add(DBOp{C: c, K: "cscan"})
			case x < 8:
				g.add(DBOp{C: c, K: "cscan", Flag: true}) // reverse scan
			default:
				id := g.newID()
				g.add(DBOp{C: c, K: "csnap", ID: id})
				g.add(DBOp{C: c, K: "csnapscan", ID: id})
				if g.r.IntN(2) == 0 {
					g.add(DBOp{C: c, K: "csnapscan", ID: id})
				}
				g.add(DBOp{C: c, K: "csnapclose", ID: id})
			}
		}
	}
	// maintenance client
	mc := writers + readers + 1
	nm := 2 + g.r.IntN(6)
	for i := 0; i < nm; i++ {
		switch x := g.r.IntN(10); {
		case x < 4:
			g.add(DBOp{C: mc, K: "flush"})
		case x < 6:
			a, b := g.span()
			g.add(DBOp{C: mc, K: "compact", Key: a, End: b})
		case x < 7 && profile == "concurrent":
			g.add(DBOp{C: mc, K: "metrics"})
		case x < 8 && profile == "concurrent":
			g.add(g.ingestOp(false, false))
			g.ops[len(g.ops)-1].C = mc
		default:
			g.add(DBOp{C: mc, K: "wait", N: 1 + g.r.IntN(50)})
		}
	}
}

// driveConcurrent runs the per-client op lists as concurrent tasks.
func (h *dbHarness) driveConcurrent() {
	h.conc = &concState{snaps: map[int]*concSnap{}}
	byClient := map[int][]*DBOp{}
	var ids []int
	for i := range h.ops {
		op := &h.ops[i]
		if _, ok := byClient[op.C]; !ok {
			ids = append(ids, op.C)
		}
		byClient[op.C] = append(byClient[op.C], op)
	}
	sort.Ints(ids)
	var wg simsync.WaitGroup
	for _, c := range ids {
		c := c
		wg.Add(1)
		simrt.Go(fmt.Sprintf("client%d", c), func() {
			defer wg.Done()
			for _, op := range byClient[c] {
				h.execConc(c, op)
				simrt.Progress()
			}
		})
	}
	wg.Wait()
	h.pc = len(h.ops)
	// close leftover snapshots
	for _, id := range sortedIDs(h.conc.snaps) {
		h.conc.snaps[id].s.Close()
	}
	h.verifyConcurrent()
}

func (h *dbHarness) execConc(c int, op *DBOp) {
	h.count("op."+op.K, 1)
	cs := h.conc
	switch op.K {
	case "batch":
		cg := &cGroup{g: &kvmodel.Group{Kind: "batch"}, client: c, ackStep: -1}
		for i := range op.Sub {
			m := h.toModel(&op.Sub[i], nil)
			if m.K == "singledel" {
				m.K = "del"
			}
			cg.g.Ops = append(cg.g.Ops, m)
		}
		b := h.db.NewBatch()
		for _, m := range cg.g.Ops {
			if err := applyToBatch(b, m); err != nil {
				simrt.Fail("tooling:batch", err.Error())
			}
		}
		cg.count = b.Count()
		cg.startStep = h.step()
		cg.startIdx, cg.ackIdx = h.disk.LogLen(), -1
		cs.groups = append(cs.groups, cg)
		var err error
		switch op.Mode {
		case "nosyncwait":
			err = h.db.ApplyNoSyncWait(b, pebble.Sync)
			if err == nil {
				// the batch is visible once ApplyNoSyncWait returns
				cg.seq = b.VerifsimSeqNum()
				cg.ackStep = h.step()
				err = b.SyncWait()
				if err == nil {
					cg.sync = true
				}
			}
		case "apply":
			err = h.db.Apply(b, writeOpts(op.Sync))
		default:
			err = b.Commit(writeOpts(op.Sync))
		}
		if err != nil {
			h.opErr("commit", err)
			b.Close()
			return
		}
		cg.seq = b.VerifsimSeqNum()
		if cg.ackStep < 0 {
			cg.ackStep = h.step()
		}
		if op.Sync && op.Mode != "nosyncwait" {
			cg.sync = true
		}
		cg.ackIdx = h.disk.LogLen()
		cg.visAtAck = h.db.VerifsimVisibleSeqNumRaw()
		b.Close()
		// read-your-writes, immediately, by the committing client
		if len(cg.g.Ops) > 0 && cg.g.Ops[0].Key != "" && cg.g.Ops[0].K != "delrange" {
			h.concGet(c, cg.g.Ops[0].Key)
			if os.Getenv("VERIF_DEBUG") != "" {
				r := cs.reads[len(cs.reads)-1]
				h.debugLog = append(h.debugLog, fmt.Sprintf("DEBUG client %d committed seq=%d count=%d mode=%s visible=%d log=%d; Get(%s) -> %q found=%v; batch ops %v\n", c, cg.seq, cg.count, op.Mode, h.db.VerifsimVisibleSeqNum(), h.db.VerifsimLogSeqNum(), r.key, shortv(r.val), r.found, cg.g.Ops))
			}
		}
	case "ingest":
		cg := &cGroup{g: &kvmodel.Group{Kind: "ingest"}, client: c, ackStep: -1}
		gi := &groupInfo{g: cg.g}
		var paths []string
		for i := range op.Sub {
			p, err := h.writeTable(&op.Sub[i], gi)
			if err != nil {
				h.opErr("write-ingest-table", err)
				return
			}
			paths = append(paths, p)
		}
		cg.startStep = h.step()
		cg.count = uint32(len(paths))
		cs.groups = append(cs.groups, cg)
		h.ingestSeq = 0
		if err := h.db.Ingest(context.Background(), paths); err != nil {
			h.opErr("ingest", err)
			return
		}
		cg.seq = h.lastIngestSeq(paths)
		cg.ackStep = h.step()
	case "ccheckpoint":
		h.concCheckpoint(c, op)
	case "cget":
		h.concGet(c, op.Key)
	case "cscan":
		h.concScan(c, h.db, op.Flag, "scan", nil)
	case "csnap":
		st := h.step()
		s := h.db.NewSnapshot()
		cs.snaps[op.ID] = &concSnap{s: s, start: st, end: h.step()}
	case "csnapscan":
		if s := cs.snaps[op.ID]; s != nil {
			h.concScan(c, s.s, false, "snapscan", s)
		}
	case "csnapclose":
		if s := cs.snaps[op.ID]; s != nil {
			if err := s.s.Close(); err != nil {
				h.opErr("snapshot-close", err)
			}
			delete(cs.snaps, op.ID)
		}
	case "flush":
		var before []*cGroup
		for _, g := range cs.groups {
			if g.ackIdx >= 0 {
				before = append(before, g)
			}
		}
		if err := h.db.Flush(); err != nil {
			h.opErr("flush", err)
		} else {
			at := h.disk.LogLen()
			for _, g := range before {
				if g.flushedAt == 0 {
					g.flushedAt = at
				}
			}
		}
	case "compact":
		if err := h.db.Compact(context.Background(), []byte(op.Key), []byte(op.End), false); err != nil {
			h.opErr("compact", err)
		}
	case "metrics":
		_ = h.db.Metrics().String()
	case "wait":
		simrt.Sleep(1000 * 1000 * 1)
	}
}

// lastIngestSeq returns the sequence number assigned to an ingestion (from the
// TableIngested event).
func (h *dbHarness) lastIngestSeq(paths []string) uint64 { return h.ingestSeq }

func (h *dbHarness) concGet(c int, key string) {
	r := &cRead{client: c, kind: "get", key: key, startStep: h.step(), visBefore: h.db.VerifsimVisibleSeqNumRaw()}
	v, closer, err := h.db.Get([]byte(key))
	r.visAfter = h.db.VerifsimVisibleSeqNumRaw()
	switch {
	case err == pebble.ErrNotFound:
	case err != nil:
		h.opErr("get", err)
		return
	default:
		r.found, r.val = true, string(v)
		closer.Close()
	}
	r.endStep = h.step()
	h.conc.reads = append(h.conc.reads, r)
}

func (h *dbHarness) concScan(c int, rd pebble.Reader, reverse bool, kind string, snap *concSnap) {
	r := &cRead{client: c, kind: kind, startStep: h.step()}
	var io *pebble.IterOptions
	if h.cfg.ConcRangeKeys {
		io = &pebble.IterOptions{KeyTypes: pebble.IterKeyTypePointsAndRanges}
		r.hasSpans = true
	}
	it, err := rd.NewIter(io)
	if err != nil {
		h.opErr("newiter", err)
		return
	}
	visit := func() {
		hasPoint, hasRange := true, false
		if r.hasSpans {
			hasPoint, hasRange = it.HasPointAndRange()
		}
		if hasPoint {
			v, _ := it.ValueAndErr()
			r.pts = append(r.pts, kvmodel.KV{K: string(it.Key()), V: string(v)})
		}
		if hasRange {
			st, en := it.RangeBounds()
			if n := len(r.spans); n == 0 || r.spans[n-1].Start != string(st) {
				sp := kvmodel.Span{Start: string(st), End: string(en)}
				for _, rk := range it.RangeKeys() {
					sp.Keys = append(sp.Keys, kvmodel.RKey{Suf: string(rk.Suffix), Val: string(rk.Value)})
				}
				r.spans = append(r.spans, sp)
			}
		}
	}
	if reverse {
		r.kind = "rscan"
		for ok := it.Last(); ok; ok = it.Prev() {
			visit()
		}
		for i, j := 0, len(r.pts)-1; i < j; i, j = i+1, j-1 {
			r.pts[i], r.pts[j] = r.pts[j], r.pts[i]
		}
		for i, j := 0, len(r.spans)-1; i < j; i, j = i+1, j-1 {
			r.spans[i], r.spans[j] = r.spans[j], r.spans[i]
		}
	} else {
		for ok := it.First(); ok; ok = it.Next() {
			visit()
		}
	}
	err = it.Error()
	if cerr := it.Close(); err == nil {
		err = cerr
	}
	if err != nil {
		h.opErr("scan", err)
		return
	}
	r.endStep = h.step()
	if snap != nil {
		r.snapStart, r.snapEnd = snap.start, snap.end
	}
	h.conc.reads = append(h.conc.reads, r)
}

// verifyConcurrent checks the recorded concurrent history.
func (h *dbHarness) verifyConcurrent() {
	cs := h.conc
	if len(h.debugLog) > 0 {
		defer func() {
			os.WriteFile(fmt.Sprintf("/tmp/verif-debug-%d.log", h.plan.Seed), []byte(strings.Join(h.debugLog, "")), 0644)
		}()
	}
	var done []*cGroup
	for _, g := range cs.groups {
		if g.ackStep >= 0 {
			done = append(done, g)
		}
	}
	sort.Slice(done, func(i, j int) bool { return done[i].seq < done[j].seq })
	// C07: unique, disjoint sequence-number ranges
	for i := 1; i < len(done); i++ {
		a, b := done[i-1], done[i]
		if a.seq+uint64(a.count) > b.seq {
			Violation("seqnum", "sequence-number ranges overlap: client %d got [%d,%d), client %d got [%d,%d)", a.client, a.seq, a.seq+uint64(a.count), b.client, b.seq, b.seq+uint64(b.count))
		}
	}
	m := kvmodel.New()
	for i, g := range done {
		g.g.ID = i + 1
		m.Append(g.g)
	}
	n := len(done)
	pos := map[*cGroup]int{}
	for i, g := range done {
		pos[g] = i + 1
	}
	lastJ := map[int]int{} // per reader client: smallest prefix consistent with its previous read
	for _, r := range cs.reads {
		winStart, winEnd := r.startStep, r.endStep
		if r.kind == "snapscan" {
			winStart, winEnd = r.snapStart, r.snapEnd
		}
		lo, hi := 0, 0
		for _, g := range done {
			if r.kind == "ckpt" && !(r.flushedWAL || g.sync || g.g.Kind != "batch") {
				// a checkpoint taken without flushing the WAL owes only what was
				// acknowledged as durable
			} else if g.ackStep <= winStart && pos[g] > lo {
				lo = pos[g] // acknowledged before the read began: must be visible (and so must everything before it)
			}
			if g.startStep <= winEnd && pos[g] > hi {
				hi = pos[g]
			}
		}
		if hi < lo {
			hi = lo
		}
		if r.kind != "snapscan" && r.kind != "ckpt" && lastJ[r.client] > lo {
			lo = lastJ[r.client] // visibility never moves backwards for one reader
		}
		match := -1
		var firstDiff string
		for j := lo; j <= hi && j <= n; j++ {
			st := m.StateAt(j)
			ok := false
			if r.kind == "get" {
				v, found := st.Get(r.key)
				ok = found == r.found && v == r.val
				if !ok && firstDiff == "" {
					firstDiff = fmt.Sprintf("model after %d groups has %q (found=%v)", j, shortv(v), found)
				}
			} else {
				d := kvmodel.DiffPoints(st.Points(), r.pts)
				if d == "" && r.hasSpans {
					d = diffSpans(st.Spans(), r.spans)
				}
				ok = d == ""
				if !ok {
					firstDiff += fmt.Sprintf(" [vs prefix of %d groups: %s]", j, d)
				}
			}
			if ok {
				match = j
				break
			}
		}
		if match < 0 {
			what := r.kind
			if r.kind == "get" {
				what = fmt.Sprintf("Get(%q)=%q found=%v", r.key, shortv(r.val), r.found)
			}
			// diagnose: a strict subset of one batch?
			class := "visibility"
			detail := h.describeTorn(m, done, r)
			if detail != "" {
				class = "atomicity"
			}
			for _, g := range done {
				if pos[g] >= lo-1 && pos[g] <= hi {
					detail += fmt.Sprintf("; group at position %d: client %d seq=%d count=%d steps [%d,%d] visibleSeqNum at ack %d ops %v", pos[g], g.client, g.seq, g.count, g.startStep, g.ackStep, g.visAtAck, g.g.Ops)
				}
			}
			if r.kind == "get" && r.found {
				for _, g := range cs.groups {
					for _, o := range g.g.Ops {
						if o.Val == r.val {
							detail += fmt.Sprintf("; the value was written by client %d's group seq=%d count=%d position=%d started at step %d acknowledged at step %d", g.client, g.seq, g.count, pos[g], g.startStep, g.ackStep)
							detail += fmt.Sprintf("; visible sequence number before/after the Get: %d/%d", r.visBefore, r.visAfter)
						}
					}
				}
			}
			Violation(class, "client %d %s during steps [%d,%d] matches no state reachable by a prefix of the %d committed groups in sequence-number order (allowed prefixes %d..%d: the first %d were acknowledged before the read began): %s%s",
				r.client, what, r.startStep, r.endStep, n, lo, hi, lo, firstDiff, detail)
		}
		if r.kind != "snapscan" && r.kind != "ckpt" {
			lastJ[r.client] = match
		}
		h.count("check.conc_read", 1)
		if hi > lo {
			h.count("probe.conc_read_window", 1)
		}
	}
	h.count("groups", int64(n))
	h.res.Stats["groups"] = int64(n)
	h.checkWALOrder(done)
}

// describeTorn reports whether a scan shows some but not all effects of one
// batch that are attributable (unique values).
func (h *dbHarness) describeTorn(m *kvmodel.Model, done []*cGroup, r *cRead) string {
	if r.kind == "get" {
		return ""
	}
	have := map[string]bool{}
	for _, kv := range r.pts {
		have[kv.V] = true
	}
	for _, sp := range r.spans {
		for _, k := range sp.Keys {
			have[k.Val] = true
		}
	}
	isRK := func(k string) bool { return k == "rkset" || k == "rkunset" || k == "rkdel" }
	overlaps := func(a, b kvmodel.Op) bool {
		return kvmodel.Compare(a.Key, b.End) < 0 && kvmodel.Compare(b.Key, a.End) < 0
	}
	for _, g := range done {
		seen, missing := 0, 0
		var missKey string
		for _, o := range g.g.Ops {
			if o.K == "rkset" && r.hasSpans {
				if have[o.Val] {
					seen++
					continue
				}
				over := false
				for _, g2 := range done {
					for _, o2 := range g2.g.Ops {
						if isRK(o2.K) && (g2.seq > g.seq || (g2 == g && &o2 != &o)) && overlaps(o, o2) && o2.Val != o.Val {
							over = true
						}
					}
				}
				if !over {
					missing++
					missKey = o.Key + "-" + o.End + " (range key)"
				}
				continue
			}
			if o.K != "set" {
				continue
			}
			if have[o.Val] {
				seen++
			} else {
				// missing is only meaningful if no later group overwrote the key
				over := false
				for _, g2 := range done {
					if g2.seq > g.seq {
						for _, o2 := range g2.g.Ops {
							if o2.Key == o.Key || (o2.K == "delrange" && kvmodel.Compare(o2.Key, o.Key) <= 0 && kvmodel.Compare(o.Key, o2.End) < 0) {
								over = true
							}
						}
					}
				}
				// ... or a later op of the same batch
				if !over {
					missing++
					missKey = o.Key
				}
			}
		}
		if seen > 0 && missing > 0 {
			dup := false
			for i, o := range g.g.Ops {
				for _, o2 := range g.g.Ops[i+1:] {
					if o2.Key == o.Key || o2.K == "delrange" {
						dup = true
					}
				}
			}
			if !dup {
				return fmt.Sprintf("; the scan shows %d writes of the batch with seqnum %d (client %d) but not its write to %q: a strict subset of one batch", seen, g.seq, g.client, missKey)
			}
		}
	}
	return ""
}

// checkWALOrder parses the WAL files still on disk: batches must appear in
// strictly increasing sequence-number order.
func (h *dbHarness) checkWALOrder(done []*cGroup) {
	names := h.disk.ListNoFault("db")
	sort.Strings(names)
	for _, n := range names {
		if !strings.HasSuffix(n, ".log") {
			continue
		}
		data, err := h.disk.ReadFile("db/" + n)
		if err != nil {
			continue
		}
		var num uint64
		fmt.Sscanf(n, "%d.log", &num)
		rr := record.NewReader(bytes.NewReader(data), base.DiskFileNum(num))
		last := uint64(0)
		for {
			rec, err := rr.Next()
			if err != nil {
				break
			}
			b, err := io.ReadAll(rec)
			if err != nil || len(b) < batchrepr.HeaderLen {
				break
			}
			hdr, ok := batchrepr.ReadHeader(b)
			if !ok {
				break
			}
			seq := uint64(hdr.SeqNum)
			// each batch starts at or after the end of the previous one's
			// sequence-number range (a batch of LogData only has an empty range)
			if seq != 0 && seq < last {
				Violation("wal-order", "WAL %s holds a batch with sequence number %d (count %d) although the previous one's range ends at %d", n, seq, hdr.Count, last)
			}
			if seq != 0 {
				last = seq + uint64(hdr.Count)
			}
			h.count("check.wal_batch", 1)
		}
	}
}

// genCrashConc: several committers with mixed sync modes plus a maintenance
// client; crash forks are verified after the run (C10 with concurrent
// committers: an acknowledged Sync commit must survive whatever the other
// committers and the WAL flush loop were doing).
func (g *gen) genCrashConc() {
	writers := 2 + g.r.IntN(3)
	g.cfg.Clients = writers + 1
	g.cfg.DisableWAL = false
	g.cfg.MemTableSize = pick(&g.r, []int{4 << 10, 16 << 10, 64 << 10})
	perW := 3 + g.r.IntN(8)
	for w := 0; w < writers; w++ {
		for i := 0; i < perW; i++ {
			n := 1 + g.r.IntN(3)
			b := DBOp{C: w + 1, K: "batch", Sync: g.r.IntN(2) == 0, Mode: pick(&g.r, []string{"apply", "commit", "commit", "nosyncwait"})}
			for j := 0; j < n; j++ {
				o := g.pointOp(false)
				if o.K == "logdata" {
					o = DBOp{K: "set", Key: g.key()}
					o.Val, o.VLen = g.val()
				}
				if o.VLen > 600 {
					o.VLen = 20 + o.VLen%500
				}
				b.Sub = append(b.Sub, o)
			}
			g.add(b)
		}
	}
	mc := writers + 1
	nm := g.r.IntN(4)
	for i := 0; i < nm; i++ {
		if g.r.IntN(2) == 0 {
			g.add(DBOp{C: mc, K: "flush"})
		} else {
			g.add(DBOp{C: mc, K: "wait", N: 1 + g.r.IntN(50)})
		}
	}
}

// matchRecoveredConc is the crash oracle for concurrent committers: the state
// recovered from a crash before disk mutation k must equal the model after a
// prefix, in sequence-number order, of the groups whose commit had begun by k,
// and the prefix must contain every group acknowledged as durable by k (a
// returned Sync commit or SyncWait, or a group acknowledged before a Flush
// that had returned by k) - hence also everything sequenced before it.
func (h *dbHarness) matchRecoveredConc(k int, pts []kvmodel.KV, spans []kvmodel.Span) (*recoverMatch, string) {
	var cand []*cGroup
	for _, g := range h.conc.groups {
		if g.seq != 0 && g.startIdx <= k {
			cand = append(cand, g)
		}
	}
	sort.Slice(cand, func(i, j int) bool { return cand[i].seq < cand[j].seq })
	m := kvmodel.New()
	lo := 0
	for i, g := range cand {
		gg := *g.g
		gg.ID = i + 1
		m.Append(&gg)
		durable := g.ackIdx >= 0 && g.ackIdx <= k && g.sync
		if g.flushedAt > 0 && g.flushedAt <= k {
			durable = true
		}
		if durable {
			lo = i + 1
		}
	}
	first := ""
	for j := len(cand); j >= lo; j-- {
		d := diffState(m.StateAt(j), pts, spans)
		if d == "" {
			return &recoverMatch{j: j}, ""
		}
		if first == "" {
			first = d
		}
	}
	desc := fmt.Sprintf("crash before disk mutation %d with %d concurrent committers: the recovered state matches no prefix (in sequence-number order) of the %d groups begun by then that contains all %d groups up to the last one acknowledged as durable; vs all of them: %s", k, h.cfg.Clients-1, len(cand), lo, first)
	if lo > 0 {
		g := cand[lo-1]
		desc += fmt.Sprintf("; last acknowledged-durable group: client %d seq=%d count=%d sync=%v acknowledged at disk index %d ops %v", g.client, g.seq, g.count, g.sync, g.ackIdx, g.g.Ops)
	}
	return nil, desc
}

// genCheckpointConc: writers, an ingesting client and a client that takes
// checkpoints (WithFlushedWAL) while the others commit (C38: "a consistent
// prefix of the source history").
func (g *gen) genCheckpointConc() {
	writers := 1 + g.r.IntN(3)
	g.cfg.Clients = writers + 2
	g.cfg.DisableWAL = false
	g.cfg.FMV = 0
	g.cfg.ConcRangeKeys = g.r.IntN(3) == 0
	perW := 4 + g.r.IntN(10)
	// In half of the plans the ingesting client has a key region of its own:
	// its tables then do not overlap the memtable and go straight into the
	// LSM (no WAL record), the case in which a checkpoint's version and its
	// copied WAL must agree on what came first.
	all := g.pfx
	wpfx, ipfx := all, all
	if g.r.IntN(2) == 0 && len(all) >= 4 {
		wpfx, ipfx = all[:len(all)/2], all[len(all)/2:]
	}
	g.pfx = wpfx
	defer func() { g.pfx = all }()
	for w := 0; w < writers; w++ {
		for i := 0; i < perW; i++ {
			n := 1 + g.r.IntN(3)
			b := DBOp{C: w + 1, K: "batch", Sync: g.r.IntN(3) == 0, Mode: pick(&g.r, []string{"apply", "commit", "commit"})}
			for j := 0; j < n; j++ {
				o := g.pointOp(false)
				if g.cfg.ConcRangeKeys && g.r.IntN(4) == 0 {
					o = g.rangeKeyOp()
				}
				if o.K == "logdata" {
					o = DBOp{K: "set", Key: g.key()}
					o.Val, o.VLen = g.val()
				}
				if o.VLen > 600 {
					o.VLen = 20 + o.VLen%500
				}
				b.Sub = append(b.Sub, o)
			}
			g.add(b)
		}
	}
	ic := writers + 1
	g.pfx = ipfx
	for i := 2 + g.r.IntN(5); i > 0; i-- {
		o := g.ingestOp(false, false)
		o.C = ic
		g.add(o)
		if g.r.IntN(2) == 0 {
			g.add(DBOp{C: ic, K: "wait", N: 1})
		}
	}
	cc := writers + 2
	for i := 2 + g.r.IntN(3); i > 0; i-- {
		g.add(DBOp{C: cc, K: "ccheckpoint", Flag: true, ID: g.newID()})
		if g.r.IntN(2) == 0 {
			g.add(DBOp{C: cc, K: "wait", N: 1})
		}
	}
}

// concCheckpoint takes a checkpoint while the other clients run, opens it and
// records its contents as one read of the concurrent history.
func (h *dbHarness) concCheckpoint(c int, op *DBOp) {
	if err := h.disk.MkdirAll("ckpt", 0755); err != nil {
		h.opErr("mkdir", err)
		return
	}
	h.nCkpt++
	dir := fmt.Sprintf("ckpt/%04d", h.nCkpt)
	var copts []pebble.CheckpointOption
	if op.Flag {
		copts = append(copts, pebble.WithFlushedWAL())
	}
	r := &cRead{client: c, kind: "ckpt", startStep: h.step(), flushedWAL: op.Flag, hasSpans: true}
	if err := h.db.Checkpoint(dir, copts...); err != nil {
		h.opErr("checkpoint", err)
		return
	}
	r.endStep = h.step()
	opts := h.makeOptionsOn(h.disk)
	opts.EnsureDefaults()
	cdb, err := pebble.Open(dir, opts)
	if err != nil {
		Violation("checkpoint", "opening checkpoint %s (taken while other clients commit) failed: %v", dir, err)
	}
	pts, spans, err := readAll(cdb)
	if cerr := cdb.Close(); err == nil {
		err = cerr
	}
	if err != nil {
		Violation("checkpoint", "reading checkpoint %s failed: %v", dir, err)
	}
	h.disk.RemoveAll(dir)
	r.pts, r.spans = pts, spans
	h.conc.reads = append(h.conc.reads, r)
	h.count("check.checkpoint", 1)
}
