package engine

import (
	"encoding/json"
	"fmt"
	"sort"

	"github.com/cockroachdb/pebble/verifsim/kvmodel"
	"github.com/cockroachdb/pebble/verifsim/simfs"
	"github.com/cockroachdb/pebble/verifsim/simrt"
)

// DBCfg is the swarm configuration of one whole-DB run.
type DBCfg struct {
	MemTableSize        int    `json:"memtable"`
	L0CompactionThresh  int    `json:"l0_compact"`
	L0StopWrites        int    `json:"l0_stop"`
	LBaseMaxBytes       int64  `json:"lbase"`
	TargetFileSize      int64  `json:"target_file"`
	BlockSize           int    `json:"block"`
	IndexBlockSize      int    `json:"index_block"`
	MaxCompactions      int    `json:"max_compactions"`
	FMV                 int    `json:"fmv"` // 0 = newest
	DisableWAL          bool   `json:"disable_wal,omitempty"`
	MaxManifestFileSize int64  `json:"max_manifest"`
	CacheSize           int64  `json:"cache"`
	MaxOpenFiles        int    `json:"max_open_files"`
	ValueSep            bool   `json:"valsep,omitempty"`
	ValueSepMin         int    `json:"valsep_min,omitempty"`
	Compression         string `json:"compression"`
	Filter              bool   `json:"filter,omitempty"`
	DisableAutoCompact  bool   `json:"no_auto_compact,omitempty"`
	DisableTableStats   bool   `json:"no_table_stats,omitempty"`
	BytesPerSync        int    `json:"bytes_per_sync"`
	WALBytesPerSync     int    `json:"wal_bytes_per_sync"`
	WALRecycle          bool   `json:"wal_recycle"`
	WALFailover         bool   `json:"wal_failover,omitempty"`
	FailoverThreshUs    int    `json:"failover_thresh_us,omitempty"`
	WALMinSyncUs        int    `json:"wal_min_sync_us,omitempty"`
	FlushSplitBytes     int64  `json:"flush_split"`
	MemTableStop        int    `json:"memtable_stop"`
	ReadCompactions     bool   `json:"read_compactions,omitempty"`
	DeletePacing        bool   `json:"delete_pacing,omitempty"`
	ShuffleList         bool   `json:"shuffle_list,omitempty"`
	BlockPropCollector  bool   `json:"block_props,omitempty"`
	ConcRangeKeys       bool   `json:"conc_range_keys,omitempty"`
	ExtIngest           bool   `json:"ext_ingest,omitempty"` // external (remote-backed) ingestion with synthetic suffixes
	Clients             int    `json:"clients"`
	// key space
	Prefixes int `json:"prefixes"`
	Suffixes int `json:"suffixes"`
}

// DBOp is one step of a whole-DB plan.
type DBOp struct {
	C    int    `json:"c,omitempty"` // client
	K    string `json:"k"`
	Key  string `json:"key,omitempty"`
	End  string `json:"end,omitempty"`
	Val  string `json:"val,omitempty"` // unique tag
	VLen int    `json:"vlen,omitempty"`
	Suf  string `json:"suf,omitempty"`
	Sync bool   `json:"sync,omitempty"`
	Mode string `json:"mode,omitempty"`
	Sub  []DBOp `json:"sub,omitempty"`
	ID   int    `json:"id,omitempty"`
	Ref  int    `json:"ref,omitempty"`
	N    int    `json:"n,omitempty"`
	M    int    `json:"m,omitempty"`
	Flag bool   `json:"flag,omitempty"`
	// crash ops
	Surv *simfs.Survival `json:"surv,omitempty"`
	// iterator options
	IO *IterOpts `json:"io,omitempty"`
}

// IterOpts mirrors the subset of pebble.IterOptions the workloads use.
type IterOpts struct {
	Lower    string `json:"lower,omitempty"`
	Upper    string `json:"upper,omitempty"`
	KeyTypes int    `json:"key_types,omitempty"` // 0 points, 1 ranges, 2 both
	Mask     string `json:"mask,omitempty"`      // range-key masking suffix
	MaskFilt bool   `json:"mask_filter,omitempty"`
	Durable  bool   `json:"durable,omitempty"`
}

func (o DBOp) String() string {
	b, _ := json.Marshal(o)
	return string(b)
}

// expandVal produces the actual value bytes for a tag: unique and
// self-describing, padded to vlen.
func expandVal(tag string, vlen int) string {
	if len(tag) >= vlen {
		return tag
	}
	b := make([]byte, vlen)
	copy(b, tag)
	b[len(tag)] = '#'
	fill := byte('a' + len(tag)%26)
	for i := len(tag) + 1; i < vlen; i++ {
		b[i] = fill
	}
	return string(b)
}

type gen struct {
	r      simrt.Rng
	cfg    *DBCfg
	prof   string
	tier   string
	ops    []DBOp
	nextV  int
	nextID int
	pfx    []string
	sfx    []string
	// live object ids
	snaps []int
	iters []int
	// single-delete contract tracking: sets since last delete per key
	sdState  map[string]int
	disabled map[string]bool
}

func pick[T any](r *simrt.Rng, xs []T) T { return xs[r.IntN(len(xs))] }

func genDBCfg(r *simrt.Rng, prof string) *DBCfg {
	c := &DBCfg{}
	c.MemTableSize = pick(r, []int{2 << 10, 4 << 10, 8 << 10, 32 << 10, 256 << 10})
	c.L0CompactionThresh = pick(r, []int{1, 2, 4, 8})
	c.L0StopWrites = c.L0CompactionThresh + pick(r, []int{2, 6, 20})
	c.LBaseMaxBytes = pick(r, []int64{1 << 10, 8 << 10, 64 << 10, 1 << 20})
	c.TargetFileSize = pick(r, []int64{512, 2 << 10, 8 << 10, 64 << 10})
	c.BlockSize = pick(r, []int{64, 256, 1024, 4096})
	c.IndexBlockSize = pick(r, []int{64, 256, 4096})
	c.MaxCompactions = pick(r, []int{1, 1, 2, 4})
	c.MaxManifestFileSize = pick(r, []int64{1, 256, 4096, 1 << 20})
	c.CacheSize = pick(r, []int64{1 << 10, 16 << 10, 1 << 20})
	c.MaxOpenFiles = pick(r, []int{0, 0, 1000})
	c.Compression = pick(r, []string{"none", "snappy", "zstd", "minlz"})
	c.Filter = r.IntN(2) == 0
	c.BytesPerSync = pick(r, []int{0, 512, 4096, 1 << 20})
	c.WALBytesPerSync = pick(r, []int{0, 512, 4096})
	c.WALRecycle = r.IntN(3) != 0
	c.FlushSplitBytes = pick(r, []int64{0, 1 << 10, 1 << 20})
	c.MemTableStop = pick(r, []int{2, 3, 6})
	c.DisableTableStats = r.IntN(4) == 0
	c.DeletePacing = r.IntN(3) == 0
	c.ShuffleList = r.IntN(2) == 0
	c.ReadCompactions = r.IntN(3) == 0
	if r.IntN(3) == 0 {
		c.ValueSep = true
		c.ValueSepMin = pick(r, []int{1, 16, 64, 200})
	}
	if r.IntN(4) == 0 {
		c.FMV = fmvMin + r.IntN(fmvNewest-fmvMin+1)
	}
	if r.IntN(6) == 0 {
		c.WALMinSyncUs = pick(r, []int{50, 1000})
	}
	c.Clients = 1
	c.Prefixes = 3 + r.IntN(18)
	c.Suffixes = r.IntN(5)
	return c
}

func (g *gen) keyspace() {
	g.pfx = nil
	for i := 0; i < g.cfg.Prefixes; i++ {
		// two-level prefixes so that some share long common prefixes
		g.pfx = append(g.pfx, fmt.Sprintf("%c%c", 'a'+i/4, 'a'+i%4))
	}
	g.sfx = []string{""}
	for i := 1; i <= g.cfg.Suffixes; i++ {
		g.sfx = append(g.sfx, fmt.Sprintf("@%d", i*2))
	}
}

func (g *gen) key() string {
	return pick(&g.r, g.pfx) + pick(&g.r, g.sfx)
}

// bound returns a key usable as a range bound: a prefix, a full key or an
// in-between key.
func (g *gen) bound() string {
	switch g.r.IntN(6) {
	case 0:
		return g.key()
	case 1:
		return pick(&g.r, g.pfx) + "x"
	case 2:
		return string([]byte{byte('a' + g.r.IntN(7))})
	}
	return pick(&g.r, g.pfx)
}

func (g *gen) span() (string, string) {
	for {
		a, b := g.bound(), g.bound()
		c := kvmodel.Compare(a, b)
		if c == 0 {
			continue
		}
		if c > 0 {
			a, b = b, a
		}
		return a, b
	}
}

// prefixSpan returns suffix-less bounds (for range keys, excise, ingest).
func (g *gen) prefixSpan() (string, string) {
	for {
		a, b := pick(&g.r, g.pfx), pick(&g.r, g.pfx)
		if g.r.IntN(4) == 0 {
			b = b + "z"
		}
		if g.r.IntN(6) == 0 {
			a = string([]byte{a[0]})
		}
		if a == b {
			continue
		}
		if kvmodel.Compare(a, b) > 0 {
			a, b = b, a
		}
		return a, b
	}
}

func (g *gen) val() (string, int) {
	g.nextV++
	tag := fmt.Sprintf("v%d", g.nextV)
	var n int
	switch g.r.IntN(10) {
	case 0:
		n = 0 // tag only
	case 1, 2, 3, 4:
		n = 8 + g.r.IntN(24)
	case 5, 6, 7:
		n = 40 + g.r.IntN(200)
	case 8:
		n = 300 + g.r.IntN(1500)
	default:
		n = 2000 + g.r.IntN(6000)
	}
	return tag, n
}

func (g *gen) pointOp(allowSD bool) DBOp {
	kinds := []string{"set", "set", "set", "set", "del", "merge", "delsized", "singledel", "delrange", "logdata"}
	for {
		k := pick(&g.r, kinds)
		if g.disabled[k] {
			continue
		}
		if k == "singledel" && !allowSD {
			continue
		}
		o := DBOp{K: k}
		switch k {
		case "set", "merge":
			o.Key = g.key()
			o.Val, o.VLen = g.val()
		case "del", "delsized", "singledel":
			o.Key = g.key()
		case "delrange":
			o.Key, o.End = g.span()
		case "logdata":
			o.Val, o.VLen = g.val()
		}
		return o
	}
}

func (g *gen) rangeKeyOp() DBOp {
	k := pick(&g.r, []string{"rkset", "rkset", "rkset", "rkunset", "rkdel"})
	o := DBOp{K: k}
	o.Key, o.End = g.prefixSpan()
	if k != "rkdel" {
		if len(g.sfx) > 1 {
			o.Suf = pick(&g.r, g.sfx)
		}
		if g.r.IntN(4) == 0 {
			o.Suf = fmt.Sprintf("@%d", 1+g.r.IntN(11))
		}
	}
	if k == "rkset" {
		o.Val, o.VLen = g.val()
		if o.VLen > 64 {
			o.VLen = 8 + o.VLen%40
		}
	}
	return o
}

// writeOp produces one committed group: a direct single op or a batch.
func (g *gen) writeOp(rangeKeys bool) DBOp {
	sync := g.r.IntN(4) == 0
	if g.r.IntN(3) != 0 {
		var o DBOp
		if rangeKeys && g.r.IntN(3) == 0 {
			o = g.rangeKeyOp()
		} else {
			o = g.pointOp(true)
		}
		b := DBOp{K: "batch", Mode: "direct", Sync: sync, Sub: []DBOp{o}}
		return b
	}
	n := 1 + g.r.IntN(8)
	b := DBOp{K: "batch", Sync: sync, Mode: pick(&g.r, []string{"apply", "commit", "commit", "nosyncwait"})}
	for i := 0; i < n; i++ {
		if rangeKeys && g.r.IntN(4) == 0 {
			b.Sub = append(b.Sub, g.rangeKeyOp())
		} else {
			b.Sub = append(b.Sub, g.pointOp(true))
		}
	}
	if g.r.IntN(12) == 0 {
		// push the batch over the large-batch threshold with one big value
		tag, _ := g.val()
		b.Sub = append(b.Sub, DBOp{K: "set", Key: g.key(), Val: tag, VLen: g.cfg.MemTableSize/2 + 64 + g.r.IntN(g.cfg.MemTableSize)})
	}
	return b
}

// ingestOp produces an ingestion of 1-3 non-overlapping tables.
func (g *gen) ingestOp(rangeKeys bool, excise bool) DBOp {
	o := DBOp{K: "ingest"}
	ntab := 1 + g.r.IntN(3)
	// choose distinct prefixes, sorted, and deal them to tables in order
	n := ntab + g.r.IntN(6)
	if n > len(g.pfx) {
		n = len(g.pfx)
	}
	perm := make([]int, len(g.pfx))
	for i := range perm {
		perm[i] = i
	}
	for i := len(perm) - 1; i > 0; i-- {
		j := g.r.IntN(i + 1)
		perm[i], perm[j] = perm[j], perm[i]
	}
	idx := append([]int(nil), perm[:n]...)
	sort.Ints(idx)
	if ntab > n {
		ntab = n
	}
	per := (n + ntab - 1) / ntab
	for t := 0; t < ntab; t++ {
		lo, hi := t*per, min((t+1)*per, n)
		if lo >= hi {
			break
		}
		tab := DBOp{K: "table"}
		for _, pi := range idx[lo:hi] {
			p := g.pfx[pi]
			// one op per user key; keys of one prefix in suffix order
			for _, s := range g.sfx {
				if g.r.IntN(2) == 0 {
					continue
				}
				k := pick(&g.r, []string{"set", "set", "set", "del", "merge"})
				if k == "merge" && g.disabled["merge"] {
					k = "set"
				}
				so := DBOp{K: k, Key: p + s}
				if k != "del" {
					so.Val, so.VLen = g.val()
				}
				tab.Sub = append(tab.Sub, so)
			}
		}
		// optional range deletion / range keys confined to the table's prefix span
		first, last := g.pfx[idx[lo]], g.pfx[idx[hi-1]]
		if g.r.IntN(4) == 0 && first != last {
			tab.Sub = append(tab.Sub, DBOp{K: "delrange", Key: first, End: last})
		}
		if rangeKeys && g.r.IntN(3) == 0 && first != last {
			so := DBOp{K: "rkset", Key: first, End: last}
			if len(g.sfx) > 1 {
				so.Suf = pick(&g.r, g.sfx)
			}
			so.Val, so.VLen = g.val()
			so.VLen = 8
			tab.Sub = append(tab.Sub, so)
		}
		if len(tab.Sub) == 0 {
			tag, vl := g.val()
			tab.Sub = append(tab.Sub, DBOp{K: "set", Key: first, Val: tag, VLen: vl})
		}
		o.Sub = append(o.Sub, tab)
	}
	if excise {
		o.K = "ingestexcise"
		o.Key, o.End = g.prefixSpan()
	}
	return o
}

func (g *gen) add(o DBOp) { g.ops = append(g.ops, o) }

func (g *gen) newID() int { g.nextID++; return g.nextID }

// dbProfiles lists the profiles of the whole-DB engine.
var dbProfiles = map[string]bool{"latest": true, "crash": true, "crash-sync": true, "flushdur": true,
	"manifest": true, "fmv": true, "durable": true, "crashvalsep": true,
	"iterpos": true, "snap": true, "iterview": true, "ibatch": true, "rangekey": true, "masking": true,
	"commit": true, "concurrent": true,
	"files": true, "iofault": true, "corrupt": true, "failover": true,
	"levels": true, "close": true, "ingest": true, "efos": true, "checkpoint": true, "scaninternal": true, "maint": true, "valsep": true}

// mixProfiles are the profiles generated by genMixed.
func mixProfile(profile string, g *gen) (mixW, bool) {
	switch profile {
	case "iterpos": // C02
		return mixW{write: 30, ingest: 2, flush: 4, compact: 3, scan: 1, iter: 60, iterOpsPerStep: 8}, true
	case "snap": // C03
		return mixW{write: 45, ingest: 3, ingestExcise: 1, excise: 2, flush: 6, compact: 5, scan: 2, snap: 30, ratchet: 2, wait: 1, longLived: true}, true
	case "iterview": // C04
		return mixW{write: 40, ingest: 4, ingestExcise: 1, excise: 3, flush: 7, compact: 6, scan: 1, iter: 30, ibatch: 12, longLived: true, iterOpsPerStep: 3}, true
	case "ibatch": // C05
		return mixW{write: 20, flush: 3, compact: 2, ingest: 1, ibatch: 70, iter: 10, rangeKeys: g.r.IntN(2) == 0, iterOpsPerStep: 4}, true
	case "rangekey": // C08
		return mixW{write: 40, ingest: 4, flush: 5, compact: 4, scan: 1, iter: 50, rangeKeys: true, iterOpsPerStep: 6}, true
	case "masking": // C09
		return mixW{write: 40, ingest: 3, extIngest: 4, flush: 6, compact: 4, iter: 50, rangeKeys: true, masking: true, iterOpsPerStep: 6}, true
	case "levels": // C15
		return mixW{write: 50, ingest: 10, ingestExcise: 4, excise: 5, flush: 8, compact: 6, scan: 1, reopen: 1, wait: 1, rangeKeys: g.r.IntN(2) == 0}, true
	case "close": // C47
		return mixW{write: 50, ingest: 5, excise: 2, flush: 6, compact: 5, scan: 2, reopen: 8, snap: 6, efos: 5, iter: 8, ibatch: 4, wait: 1, rangeKeys: g.r.IntN(2) == 0}, true
	case "ingest": // C36
		return mixW{write: 35, ingest: 14, ingestExcise: 7, excise: 7, flush: 6, compact: 5, scan: 3, iter: 14, snap: 6, rangeKeys: g.r.IntN(2) == 0, longLived: true, iterOpsPerStep: 3}, true
	case "efos": // C37
		return mixW{write: 40, ingest: 4, ingestExcise: 5, excise: 6, flush: 8, compact: 6, efos: 6, snap: 25, longLived: true}, true
	case "checkpoint": // C38
		return mixW{write: 55, ingest: 4, excise: 2, flush: 5, compact: 4, checkpoint: 12, scan: 1, rangeKeys: g.r.IntN(2) == 0}, true
	case "scaninternal": // C45
		return mixW{write: 55, ingest: 5, excise: 2, flush: 7, compact: 5, scanInternal: 14, scan: 1, snap: 8, rangeKeys: g.r.IntN(2) == 0}, true
	case "maint": // C14
		return mixW{write: 40, ingest: 4, ingestExcise: 2, excise: 3, flush: 10, compact: 10, snap: 14, efos: 2, iter: 12, ratchet: 2, wait: 3, scan: 2, rangeKeys: g.r.IntN(2) == 0, longLived: true, iterOpsPerStep: 3}, true
	case "iofault": // C43
		return mixW{write: 50, ingest: 4, ingestExcise: 1, excise: 2, flush: 9, compact: 7, scan: 4, reopen: 2, iter: 8, snap: 3, wait: 3, crash: 1,
			rangeKeys: g.r.IntN(2) == 0, iterOpsPerStep: 3}, true
	case "files": // C39
		return mixW{write: 45, ingest: 5, ingestExcise: 2, excise: 3, flush: 9, compact: 9, scan: 1, reopen: 5, crash: 2, iter: 16, snap: 4, efos: 6, wait: 2, rangeKeys: g.r.IntN(2) == 0, longLived: true, iterOpsPerStep: 2}, true
	case "corrupt": // C27
		return mixW{write: 60, ingest: 5, flush: 12, compact: 8, scan: 2, wait: 1, rangeKeys: g.r.IntN(2) == 0}, true
	case "valsep": // C44
		return mixW{write: 55, ingest: 4, flush: 10, compact: 10, snap: 8, iter: 8, scan: 3, reopen: 2, wait: 2, longLived: true, iterOpsPerStep: 4}, true
	}
	return mixW{}, false
}

// forkPolicy returns how crash forks are taken for a profile and tier.
func forkPolicy(profile, tier string) (mode string, n int) {
	switch profile {
	case "crash", "crash-sync", "flushdur", "fmv", "durable", "crashvalsep", "failover":
		if tier == "thorough" {
			return "all", 0
		}
		return "sample", 16
	case "manifest":
		return "sample", 40
	}
	return "", 0
}

func (g *gen) survival() *simfs.Survival {
	switch g.r.IntN(6) {
	case 0, 1:
		return &simfs.Survival{Mode: "none"}
	case 2:
		return &simfs.Survival{Mode: "all"}
	case 3:
		return &simfs.Survival{Mode: "prefix", Pct: 50, Seed: g.r.Next()}
	}
	return &simfs.Survival{Mode: "pct", Pct: []int{10, 30, 50, 80}[g.r.IntN(4)], Seed: g.r.Next()}
}

// genCrash: C10/C11/C12 — writes with mixed sync modes, flushes, compactions,
// ingests, excises, and main-line crashes armed a few disk mutations ahead.
func (g *gen) genCrash(nops int, profile string) {
	rangeKeys := g.r.IntN(2) == 0
	wIngest := g.r.IntN(2) == 0
	if g.cfg.DisableWAL {
		// With the WAL disabled an ingest/excise that takes the flushable path
		// is, like every other write, durable only after the next flush; the
		// durability oracle for ingests assumes a WAL.
		wIngest = false
	}
	ncrash := 0
	wReaders := g.r.IntN(2) == 0
	for i := 0; i < nops; i++ {
		x := g.r.IntN(100)
		switch {
		case profile == "fmv" && x < 12:
			g.add(DBOp{K: "ratchet", N: g.r.IntN(64)})
		case profile == "durable" && x < 14:
			g.add(DBOp{K: "durscan"})
		case profile == "manifest" && x < 30:
			switch g.r.IntN(4) {
			case 0:
				if g.r.IntN(2) == 0 {
					// the version edits of the flush and of the operations that
					// follow (ingest, compaction, excise) overlap
					g.add(DBOp{K: "aflush"})
				} else {
					g.add(DBOp{K: "flush"})
				}
			case 1:
				a, b := g.span()
				g.add(DBOp{K: "compact", Key: a, End: b})
			case 2:
				g.add(g.ingestOp(rangeKeys, false))
			default:
				a, b := g.prefixSpan()
				g.add(DBOp{K: "excise", Key: a, End: b})
			}
		case x < 62:
			o := g.writeOp(rangeKeys)
			if profile == "crash-sync" {
				o.Sync = g.r.IntN(2) == 0
			}
			if profile == "flushdur" {
				o.Sync = false
				if o.Mode == "nosyncwait" {
					o.Mode = "commit"
				}
			}
			g.add(o)
		case x < 67 && wIngest:
			g.add(g.ingestOp(rangeKeys, false))
		case x < 69 && wIngest:
			g.add(g.ingestOp(rangeKeys, true))
		case x < 72 && wIngest:
			a, b := g.prefixSpan()
			g.add(DBOp{K: "excise", Key: a, End: b})
		case x < 80:
			if g.r.IntN(3) == 0 {
				// asynchronous: the operations that follow overlap the flush
				// (and its MANIFEST write, which a stall rule may hold open)
				g.add(DBOp{K: "aflush"})
			} else {
				g.add(DBOp{K: "flush"})
			}
		case x < 83:
			a, b := g.span()
			g.add(DBOp{K: "compact", Key: a, End: b})
		case x < 84 && wReaders && profile != "flushdur":
			// A window in which bookkeeping may run ahead of durability: a reader
			// pins the tables a compaction replaces; a synced write; a flush that
			// is stalled in its MANIFEST sync while the reader is closed (its
			// old version and the files only it kept alive are released), more
			// synced writes arrive and the next flush rotates the WAL.
			id := g.newID()
			g.add(DBOp{K: "iter", ID: id, IO: &IterOpts{}})
			g.add(DBOp{K: "flush"})
			a, b := g.span()
			g.add(DBOp{K: "compact", Key: a, End: b})
			o := g.writeOp(rangeKeys)
			o.Sync = true
			g.add(o)
			g.add(DBOp{K: "armstall", Mode: "manifest-write", N: 5 + g.r.IntN(100)})
			g.add(DBOp{K: "aflush"})
			g.add(DBOp{K: "iterclose", ID: id})
			for j := 1 + g.r.IntN(3); j > 0; j-- {
				o := g.writeOp(rangeKeys)
				o.Sync = g.r.IntN(2) == 0
				g.add(o)
			}
			g.add(DBOp{K: "aflush"})
			o = g.writeOp(rangeKeys)
			o.Sync = true
			g.add(o)
		case x < 86 && wReaders:
			// A reader held across writes, flushes and compactions: closing it
			// releases an old version (and with it obsolete files) at an
			// arbitrary moment of the background work.
			if len(g.iters) > 0 && (len(g.iters) >= 3 || g.r.IntN(2) == 0) {
				id := pick(&g.r, g.iters)
				g.add(DBOp{K: "iterclose", ID: id})
				g.iters = removeInt(g.iters, id)
			} else {
				id := g.newID()
				g.add(DBOp{K: "iter", ID: id, IO: &IterOpts{}})
				g.iters = append(g.iters, id)
			}
		case x < 89:
			g.add(DBOp{K: "reopen"})
			g.iters = nil
		case x < 90 && wIngest && ncrash < 3 && profile != "flushdur":
			// Recovery of a queue that is more than memtables, followed by a
			// second crash soon after: an unsynced key, an ingest over it (a
			// flushable ingest, written to the WAL), a batch of many small
			// entries (a large batch: its own flushable, sharing a WAL with
			// what precedes it), a tail for the crash to tear; then a crash,
			// little or no work, and another crash (or a plain reopen).
			ncrash += 2
			k := g.key()
			v, n := g.val()
			g.add(DBOp{K: "batch", Mode: "direct", Sub: []DBOp{{K: "set", Key: k, Val: v, VLen: n % 64}}})
			v, n = g.val()
			g.add(DBOp{K: "ingest", Sub: []DBOp{{K: "table", Sub: []DBOp{{K: "set", Key: k, Val: v, VLen: n % 64}}}}})
			big := DBOp{K: "batch", Mode: "commit", Sync: g.r.IntN(3) != 0}
			for j := 8 + g.r.IntN(24); j > 0; j-- {
				v, n := g.val()
				big.Sub = append(big.Sub, DBOp{K: "set", Key: g.key(), Val: v, VLen: n % 32})
			}
			g.add(big)
			for j := g.r.IntN(3); j > 0; j-- {
				g.add(g.writeOp(rangeKeys))
			}
			g.add(DBOp{K: "crashat", N: g.r.IntN(6), Surv: &simfs.Survival{Mode: pick(&g.r, []string{"prefix", "pct", "none"}), Pct: 50, Seed: g.r.Next()}})
			for j := g.r.IntN(2); j > 0; j-- {
				g.add(g.writeOp(rangeKeys))
			}
			if g.r.IntN(3) == 0 {
				g.add(DBOp{K: "reopen"})
			} else {
				g.add(DBOp{K: "crashat", N: g.r.IntN(4), Surv: g.survival()})
			}
			g.add(DBOp{K: "scan"})
			g.iters = nil
		case x < 95 && ncrash < 4:
			ncrash++
			o := DBOp{K: "crashat", N: g.r.IntN(40), Surv: g.survival()}
			if g.r.IntN(4) == 0 {
				o.M = 1 + g.r.IntN(30) // crash again during recovery
			}
			g.add(o)
			g.iters = nil
		case x < 97 && ncrash < 4:
			ncrash++
			g.add(DBOp{K: "crashnow", Surv: g.survival()})
			g.iters = nil
		default:
			g.add(DBOp{K: "scan"})
		}
	}
	g.add(DBOp{K: "scan"})
}

func (e *dbEngine) Generate(profile string, seed uint64, tier string) (*Plan, error) {
	if !dbProfiles[profile] {
		return nil, fmt.Errorf("dbsim: unknown profile %q", profile)
	}
	g := &gen{r: simrt.NewRng(seed, 1000), prof: profile, tier: tier, disabled: map[string]bool{}}
	g.cfg = genDBCfg(&g.r, profile)
	g.keyspace()
	// swarm: disable a random subset of op kinds
	for _, k := range []string{"merge", "delrange", "singledel", "delsized", "logdata"} {
		if g.r.IntN(5) == 0 {
			g.disabled[k] = true
		}
	}
	if profile == "scaninternal" {
		// ScanInternal does not support MERGE keys (it panics with "cannot
		// process merge key in point collapsing iterator"): precondition.
		g.disabled["merge"] = true
		g.disabled["singledel"] = true // likewise unsupported by ScanInternal
	}
	var faults []*simfs.Fault
	nops := 40 + g.r.IntN(160)
	if tier == "thorough" {
		nops = 40 + g.r.IntN(400)
	}
	concCkpt := profile == "checkpoint" && g.r.IntN(3) == 0
	if w, ok := mixProfile(profile, g); ok && concCkpt {
		_ = w
		g.genCheckpointConc()
	} else if ok {
		if profile == "valsep" {
			g.cfg.ValueSep = true
			g.cfg.ValueSepMin = pick(&g.r, []int{1, 8, 32, 100})
			g.cfg.FMV = 0
		}
		if profile == "corrupt" {
			// "written in a current format"
			g.cfg.FMV = 0
			if g.r.IntN(3) != 0 {
				g.cfg.ValueSep = true
				g.cfg.ValueSepMin = pick(&g.r, []int{1, 8, 32, 100})
			}
			nops = 20 + g.r.IntN(80)
		}
		if profile == "efos" || profile == "checkpoint" || profile == "scaninternal" {
			g.cfg.FMV = 0
		}
		if profile == "maint" && g.r.IntN(2) == 0 {
			g.cfg.ValueSep = true
			g.cfg.ValueSepMin = pick(&g.r, []int{1, 16})
		}
		if profile == "masking" {
			g.cfg.ExtIngest = true
			g.cfg.FMV = 0
			g.cfg.BlockPropCollector = true
			if g.cfg.Suffixes < 2 {
				g.cfg.Suffixes = 2 + g.r.IntN(3)
				g.keyspace()
			}
		}
		if profile == "iofault" {
			// A write that failed without being applied is not known to the
			// (offline) generator; SingleDelete's contract depends on the exact
			// number of preceding sets, so it is left out here.
			g.disabled["singledel"] = true
		}
		g.genMixed(nops, w)
		if (profile == "files" || profile == "maint" || profile == "snap") && g.r.IntN(3) == 0 {
			// stalled MANIFEST / table / directory syncs hold version edits
			// "written but not yet durable" across many client operations
			faults = g.genDelays()
		}
		if profile == "corrupt" {
			n := 24
			if tier == "thorough" {
				n = 120
			}
			g.add(DBOp{K: "rot", N: n})
		}
		if profile == "iofault" {
			faults = g.genFaults()
			// the faults stop; then a clean reopen, a full read, a crash that
			// loses everything unsynced, and a full read again
			g.add(DBOp{K: "clearfaults"})
			g.add(DBOp{K: "reopen"})
			g.add(DBOp{K: "scan"})
			g.add(DBOp{K: "crashnow", Surv: g.survival()})
			g.add(DBOp{K: "scan"})
		}
	}
	atomics := concCkpt
	switch profile {
	case "commit", "concurrent":
		g.genCommit(profile)
		atomics = true
	}
	switch profile {
	case "latest":
		g.genLatest(nops)
	case "crash", "crash-sync", "flushdur", "manifest", "fmv", "durable", "crashvalsep", "failover":
		if profile == "failover" {
			g.cfg.WALFailover = true
			g.cfg.DisableWAL = false
			g.cfg.FailoverThreshUs = pick(&g.r, []int{200, 1000, 20000, 100000})
			faults = g.genStalls()
		}
		if profile == "flushdur" && g.r.IntN(2) == 0 {
			g.cfg.DisableWAL = true
		}
		if profile == "fmv" && g.r.IntN(3) == 0 {
			// a few failing creates / syncs of marker files and directory syncs:
			// a ratchet that fails must leave memory and disk agreeing, and one
			// that succeeds (also as a retry) must be durable
			faults = g.genMarkerFaults()
		}
		if profile == "flushdur" && g.r.IntN(3) == 0 {
			// "after Flush returns without error": a third of the plans make a
			// few syncs fail, so that some flushes fail (and are retried) and
			// the ones that report success are held to the same promise
			faults = g.genSyncFaults()
		}
		if profile == "manifest" {
			g.cfg.MaxManifestFileSize = pick(&g.r, []int64{1, 1, 128, 1 << 20, 1 << 20})
		}
		if profile == "fmv" {
			g.cfg.FMV = fmvMin + g.r.IntN(fmvNewest-fmvMin)
		}
		if profile == "crashvalsep" {
			g.cfg.ValueSep = true
			g.cfg.ValueSepMin = pick(&g.r, []int{1, 8, 32, 100})
			g.cfg.FMV = 0
		}
		n := 15 + g.r.IntN(60)
		if tier == "thorough" {
			n = 10 + g.r.IntN(40)
		}
		if (profile == "crash" || profile == "crash-sync") && g.r.IntN(3) == 0 {
			faults = g.genDelays()
		}
		if profile == "crash-sync" && g.r.IntN(3) == 0 {
			// a third of the plans: concurrent committers, crash forks only
			g.genCrashConc()
			atomics = true
		} else {
			g.genCrash(n, profile)
		}
	}
	p := &Plan{Engine: "dbsim", Profile: profile, Seed: seed, Tier: tier}
	p.Sched = genSched(&g.r, atomics)
	p.Cfg = mustJSON(g.cfg)
	p.Ops = mustJSON(g.ops)
	p.Faults = faults
	return p, nil
}

// genLatest: C01 — single client, all write kinds, reads checked by the executor.
func (g *gen) genLatest(nops int) {
	wIngest := g.r.IntN(3) != 0
	wExcise := g.r.IntN(2) == 0
	for i := 0; i < nops; i++ {
		x := g.r.IntN(100)
		switch {
		case x < 70:
			g.add(g.writeOp(false))
		case x < 76 && wIngest:
			g.add(g.ingestOp(false, false))
		case x < 79 && wIngest && wExcise:
			g.add(g.ingestOp(false, true))
		case x < 82 && wExcise:
			a, b := g.prefixSpan()
			g.add(DBOp{K: "excise", Key: a, End: b})
		case x < 87:
			g.add(DBOp{K: "flush"})
		case x < 91:
			a, b := g.span()
			g.add(DBOp{K: "compact", Key: a, End: b, Flag: g.r.IntN(2) == 0})
		case x < 96:
			g.add(DBOp{K: "scan"})
		case x < 98:
			g.add(DBOp{K: "reopen"})
		default:
			g.add(DBOp{K: "wait", N: 1 + g.r.IntN(2000)})
		}
	}
	g.add(DBOp{K: "scan"})
}
