package engine

import (
	"context"
	"encoding/json"
	"errors"
	"fmt"
	"io"
	"strings"
	"testing"
	"time"

	"github.com/cockroachdb/pebble/internal/base"
	"github.com/cockroachdb/pebble/objstorage"
	"github.com/cockroachdb/pebble/objstorage/objstorageprovider"
	"github.com/cockroachdb/pebble/objstorage/remote"
	"github.com/cockroachdb/pebble/verifsim/simfs"
	"github.com/cockroachdb/pebble/verifsim/simrt"
	"github.com/cockroachdb/pebble/verifsim/simsync"
)

// sharedObjEngine decides C41: two or three real objstorage providers (each
// with its own simulated disk) share one in-memory remote store whose every
// operation is a scheduling point; the seeded scheduler interleaves the steps
// of reference creation, attach and sharedUnref.
type sharedObjEngine struct{}

func init() { Register("sharedobj", &sharedObjEngine{}) }

type soCfg struct {
	Providers int  `json:"providers"`
	Objects   int  `json:"objects"`
	Steps     int  `json:"steps"`
	Unprotect bool `json:"unprotect"` // close the backing handle before the receiver attaches
	// FailRefClose lists which closes of reference-marker writers (counted
	// from the end of the set-up phase) report an upload failure: nothing is
	// stored and Close returns an error, as a remote.Storage driver may do.
	FailRefClose []int `json:"fail_ref_close,omitempty"`
}

func (e *sharedObjEngine) Generate(profile string, seed uint64, tier string) (*Plan, error) {
	r := simrt.NewRng(seed, 7000)
	c := soCfg{Providers: 2 + r.IntN(2), Objects: 1 + r.IntN(2), Steps: 3 + r.IntN(6), Unprotect: r.IntN(2) == 0}
	if r.IntN(3) == 0 {
		for n := 1 + r.IntN(2); n > 0; n-- {
			c.FailRefClose = append(c.FailRefClose, r.IntN(4))
		}
	}
	if tier == "thorough" {
		c.Steps = 3 + r.IntN(12)
	}
	p := &Plan{Engine: "sharedobj", Profile: profile, Seed: seed, Tier: tier}
	p.Sched = genSched(&r, false)
	if p.Sched.Policy == "pct" {
		p.Sched.PCTHorizon = 300
	}
	p.Cfg = mustJSON(c)
	return p, nil
}

// yieldStorage wraps the shared remote store: every operation is a mandatory
// scheduling point and is reported to the oracle.
type yieldStorage struct {
	inner  remote.Storage
	before func(op, name string)
	after  func(op, name string, err error)
	// fault injection on reference-marker uploads
	armed        bool
	refCloses    int
	failRefClose map[int]bool
	failed       int
}

func (s *yieldStorage) Close() error { return nil }
func (s *yieldStorage) ReadObject(ctx context.Context, objName string) (remote.ObjectReader, int64, error) {
	simrt.YieldNow("remote")
	return s.inner.ReadObject(ctx, objName)
}

type yieldWriter struct {
	s    *yieldStorage
	name string
	w    io.WriteCloser
}

func (w *yieldWriter) Write(p []byte) (int, error) { return w.w.Write(p) }
func (w *yieldWriter) Close() error {
	simrt.YieldNow("remote")
	if w.s.armed && strings.Contains(w.name, ".ref.") {
		n := w.s.refCloses
		w.s.refCloses++
		if w.s.failRefClose[n] {
			// the upload failed: nothing was stored
			w.s.failed++
			err := errors.New("simremote: injected upload failure on Close of " + w.name)
			w.s.after("create", w.name, err)
			return err
		}
	}
	err := w.w.Close()
	w.s.after("create", w.name, err)
	return err
}

func (s *yieldStorage) CreateObject(objName string) (io.WriteCloser, error) {
	simrt.YieldNow("remote")
	w, err := s.inner.CreateObject(objName)
	if err != nil {
		return nil, err
	}
	return &yieldWriter{s: s, name: objName, w: w}, nil
}
func (s *yieldStorage) List(prefix, delimiter string) ([]string, error) {
	simrt.YieldNow("remote")
	return s.inner.List(prefix, delimiter)
}
func (s *yieldStorage) Delete(objName string) error {
	simrt.YieldNow("remote")
	s.before("delete", objName)
	err := s.inner.Delete(objName)
	s.after("delete", objName, err)
	return err
}
func (s *yieldStorage) Size(objName string) (int64, error) {
	simrt.YieldNow("remote")
	return s.inner.Size(objName)
}
func (s *yieldStorage) IsNotExistError(err error) bool { return s.inner.IsNotExistError(err) }

type soRef struct {
	prov    int
	fileNum base.DiskFileNum
	meta    objstorage.ObjectMetadata
	obj     int
	// holding is true from the moment create/attach returned successfully
	// until the provider starts removing the reference.
	holding bool
}

func (e *sharedObjEngine) Execute(t *testing.T, plan *Plan, res *Result) {
	var c soCfg
	if err := json.Unmarshal(plan.Cfg, &c); err != nil {
		res.Status, res.Msg = "tooling", err.Error()
		return
	}
	cfg := plan.Sched.simCfg()
	cfg.Horizon = time.Minute
	sim := simrt.New(plan.Sched.Seed, cfg)
	start := time.Now()
	rr := sim.Run(&simrt.Inc{ID: 1}, func() {
		inner := remote.NewInMem()
		objNames := map[int]string{} // object id -> remote object name
		var refs []*soRef
		holders := func(obj int) []string {
			var out []string
			for _, r := range refs {
				if r.obj == obj && r.holding {
					out = append(out, fmt.Sprintf("provider %d (file %s)", r.prov, r.fileNum))
				}
			}
			return out
		}
		st := &yieldStorage{inner: inner, failRefClose: map[int]bool{}}
		for _, n := range c.FailRefClose {
			st.failRefClose[n] = true
		}
		st.before = func(op, name string) {
			if op != "delete" || strings.Contains(name, ".ref.") {
				return
			}
			for id, n := range objNames {
				if n == name {
					if h := holders(id); len(h) > 0 {
						simrt.Fail("oracle:sharedobj", fmt.Sprintf("shared object %s is being deleted while still referenced by %v", name, h))
					}
				}
			}
		}
		st.after = func(op, name string, err error) {}
		factory := remote.MakeSimpleFactory(map[remote.Locator]remote.Storage{remote.Locator{}: st})
		provs := make([]objstorage.Provider, c.Providers)
		for i := range provs {
			d := simfs.New(fmt.Sprintf("disk%d", i), plan.Seed+uint64(i))
			d.MkdirAll("p", 0755)
			s := objstorageprovider.DefaultSettings(d, "p")
			s.Remote.StorageFactory = factory
			s.Remote.CreateOnShared = remote.CreateOnSharedAll
			s.Remote.CreateOnSharedLocator = remote.Locator{}
			p, err := objstorageprovider.Open(s)
			if err != nil {
				simrt.Fail("tooling:provider", err.Error())
			}
			if err := p.SetCreatorID(objstorage.CreatorID(100 + i)); err != nil {
				simrt.Fail("tooling:provider", err.Error())
			}
			provs[i] = p
		}
		nextFile := make([]int, c.Providers)
		newFile := func(p int) base.DiskFileNum { nextFile[p]++; return base.DiskFileNum(nextFile[p]) }
		exists := func(obj int) bool {
			_, err := inner.Size(objNames[obj])
			return err == nil
		}
		// create the objects (provider 0 and 1 alternate)
		for o := 0; o < c.Objects; o++ {
			p := o % c.Providers
			fn := newFile(p)
			w, meta, err := provs[p].Create(context.Background(), base.FileTypeTable, fn, objstorage.CreateOptions{PreferSharedStorage: true, SharedCleanupMethod: objstorage.SharedRefTracking})
			if err != nil {
				simrt.Fail("tooling:create", err.Error())
			}
			if err := w.Write([]byte(fmt.Sprintf("object-%d", o))); err != nil {
				simrt.Fail("tooling:create", err.Error())
			}
			if err := w.Finish(); err != nil {
				simrt.Fail("tooling:create", err.Error())
			}
			names, _ := inner.List("", "")
			for _, n := range names {
				if !strings.Contains(n, ".ref.") {
					known := false
					for _, kn := range objNames {
						known = known || kn == n
					}
					if !known {
						objNames[o] = n
					}
				}
			}
			refs = append(refs, &soRef{prov: p, fileNum: fn, meta: meta, obj: o, holding: true})
		}
		st.armed = true
		// backings in flight between providers
		type offer struct {
			obj     int
			backing objstorage.RemoteObjectBacking
		}
		var offers []offer
		var wg simsync.WaitGroup
		for p := 0; p < c.Providers; p++ {
			p := p
			r := simrt.NewRng(plan.Seed, uint64(7100+p))
			wg.Add(1)
			simrt.Go("provider", func() {
				defer wg.Done()
				for step := 0; step < c.Steps; step++ {
					var mine []*soRef
					for _, rf := range refs {
						if rf.prov == p && rf.holding {
							mine = append(mine, rf)
						}
					}
					switch x := r.IntN(10); {
					case x < 4 && len(mine) > 0: // offer a backing of one of my objects
						rf := mine[r.IntN(len(mine))]
						h, err := provs[p].RemoteObjectBacking(&rf.meta)
						if err != nil {
							simrt.Fail("oracle:sharedobj", "RemoteObjectBacking failed for a held object: "+err.Error())
						}
						b, err := h.Get()
						if err != nil {
							simrt.Fail("oracle:sharedobj", "backing handle Get failed: "+err.Error())
						}
						offers = append(offers, offer{obj: rf.obj, backing: append(objstorage.RemoteObjectBacking(nil), b...)})
						if c.Unprotect || r.IntN(3) == 0 {
							h.Close() // the receiver may now race with my removal
						} else {
							simrt.YieldNow("handoff")
							simrt.YieldNow("handoff")
							h.Close()
						}
						res.Stats["probe.so_offer"]++
					case x < 7 && len(offers) > 0: // attach somebody's backing
						of := offers[r.IntN(len(offers))]
						fn := newFile(p)
						rf := &soRef{prov: p, fileNum: fn, obj: of.obj}
						metas, err := provs[p].AttachRemoteObjects([]objstorage.RemoteObjectToAttach{{FileNum: fn, FileType: base.FileTypeTable, Backing: of.backing}})
						if err != nil {
							res.Stats["probe.so_attach_failed"]++
							break
						}
						// a successful attach: the object must exist and must stay
						if !exists(of.obj) {
							simrt.Fail("oracle:sharedobj", fmt.Sprintf("provider %d attached shared object %s successfully although the object had already been deleted", p, objNames[of.obj]))
						}
						rf.meta = metas[0]
						rf.holding = true
						refs = append(refs, rf)
						res.Stats["probe.so_attach_ok"]++
					case len(mine) > 0: // remove one of my references
						rf := mine[r.IntN(len(mine))]
						rf.holding = false
						if err := provs[p].Remove(base.FileTypeTable, rf.fileNum); err != nil {
							simrt.Fail("oracle:sharedobj", fmt.Sprintf("provider %d: Remove(%s) failed: %v", p, rf.fileNum, err))
						}
						res.Stats["probe.so_remove"]++
					}
					simrt.Progress()
				}
			})
		}
		wg.Wait()
		// every remaining holder keeps its object alive
		for o := 0; o < c.Objects; o++ {
			h := holders(o)
			if len(h) > 0 && !exists(o) {
				simrt.Fail("oracle:sharedobj", fmt.Sprintf("shared object %s no longer exists although %v still hold references", objNames[o], h))
			}
		}
		// drop the remaining references: afterwards no object may linger
		for _, rf := range refs {
			if rf.holding {
				rf.holding = false
				if err := provs[rf.prov].Remove(base.FileTypeTable, rf.fileNum); err != nil {
					simrt.Fail("oracle:sharedobj", fmt.Sprintf("final Remove failed: %v", err))
				}
			}
		}
		for o := 0; o < c.Objects; o++ {
			if exists(o) {
				names, _ := inner.List("", "")
				simrt.Fail("oracle:sharedobj", fmt.Sprintf("shared object %s still exists after every provider removed its reference (remote store now holds %v)", objNames[o], names))
			}
		}
		for _, p := range provs {
			p.Close()
		}
		res.Stats["fault.ref_marker_upload"] += int64(st.failed)
	})
	res.Stats["fake_ns"] = int64(time.Since(start))
	finish(res, rr, sim)
	res.Nontrivial = res.Stats["probe.so_attach_ok"]+res.Stats["probe.so_attach_failed"] > 0 && res.Stats["probe.so_remove"] > 0
	res.CaseHash = fmt.Sprintf("%016x", caseHash(plan)^plan.Seed)
	res.Sample = map[string]any{"cfg": c, "sched": plan.Sched}
}
