package engine

import (
	"encoding/json"
	"fmt"
	"sort"
	"testing"
	"time"

	"github.com/cockroachdb/pebble/internal/arenaskl"
	"github.com/cockroachdb/pebble/internal/base"
	"github.com/cockroachdb/pebble/verifsim/simrt"
	"github.com/cockroachdb/pebble/verifsim/simsync"
)

// sklEngine decides C30: concurrent skiplist inserts are lossless and ordered.
// Inserter and reader tasks run on the real arenaskl.Skiplist; the rewriter
// put a yield point before every statement with an atomic load/store/CAS, so
// the seeded scheduler interleaves the CAS steps.
type sklEngine struct{}

func init() { Register("skl", &sklEngine{}) }

type sklCfg struct {
	Inserters int  `json:"inserters"`
	Readers   int  `json:"readers"`
	Keys      int  `json:"keys"`    // distinct user keys
	PerTask   int  `json:"pertask"` // inserts per inserter
	Dups      bool `json:"dups"`    // inserters deliberately collide on (key,seqnum)
	// Inserter: every task inserts through its own arenaskl.Inserter (cached
	// splice), as memTable.apply does for concurrently committed batches.
	Inserter bool `json:"inserter,omitempty"`
	// Ascending: each task inserts its keys in ascending order, which is what
	// keeps a cached splice valid from one insert to the next.
	Ascending bool `json:"ascending,omitempty"`
}

func (e *sklEngine) Generate(profile string, seed uint64, tier string) (*Plan, error) {
	r := simrt.NewRng(seed, 5000)
	c := sklCfg{Inserters: 2 + r.IntN(3), Readers: r.IntN(3), Keys: 2 + r.IntN(10), PerTask: 2 + r.IntN(8), Dups: r.IntN(2) == 0}
	c.Inserter = r.IntN(2) == 0
	c.Ascending = c.Inserter && r.IntN(2) == 0
	if tier == "thorough" {
		c.PerTask = 2 + r.IntN(20)
	}
	p := &Plan{Engine: "skl", Profile: profile, Seed: seed, Tier: tier}
	p.Sched = genSched(&r, true)
	if p.Sched.AtomicProb == 0 {
		p.Sched.AtomicProb = 0.3
	}
	if p.Sched.Policy == "pct" {
		p.Sched.PCTHorizon = 300
	}
	p.Cfg = mustJSON(c)
	return p, nil
}

type sklKey struct {
	k   string
	seq uint64
}

func (e *sklEngine) Execute(t *testing.T, plan *Plan, res *Result) {
	var c sklCfg
	if err := json.Unmarshal(plan.Cfg, &c); err != nil {
		res.Status, res.Msg = "tooling", err.Error()
		return
	}
	cfg := plan.Sched.simCfg()
	cfg.Horizon = time.Minute
	sim := simrt.New(plan.Sched.Seed, cfg)
	r := simrt.NewRng(plan.Seed, 5100)
	start := time.Now()
	rr := sim.Run(&simrt.Inc{ID: 1}, func() {
		skl := arenaskl.NewSkiplist(arenaskl.NewArena(make([]byte, 1<<20)), base.DefaultComparer.Compare)
		// plan the inserts of every task up front (deterministic)
		type ins struct {
			key sklKey
			val string
		}
		plans := make([][]ins, c.Inserters)
		for i := range plans {
			for j := 0; j < c.PerTask; j++ {
				k := sklKey{k: fmt.Sprintf("k%02d", r.IntN(c.Keys))}
				if c.Dups {
					k.seq = uint64(1 + r.IntN(4)) // collisions across tasks are likely
				} else {
					k.seq = uint64(1 + i + c.Inserters*j) // distinct per (task, step)
				}
				plans[i] = append(plans[i], ins{k, fmt.Sprintf("t%d.%d", i, j)})
			}
		}
		if c.Ascending {
			for i := range plans {
				p := plans[i]
				sort.SliceStable(p, func(a, b int) bool { return p[a].key.k < p[b].key.k })
			}
		}
		attemptedKeys := map[sklKey]bool{}
		for _, p := range plans {
			for _, in := range p {
				attemptedKeys[in.key] = true
			}
		}
		success := map[sklKey]string{} // winner's value
		exists := map[sklKey]int{}
		done := map[sklKey]bool{} // inserts that have returned successfully
		var wg simsync.WaitGroup
		cmpKeys := func(a, b sklKey) int {
			if a.k != b.k {
				if a.k < b.k {
					return -1
				}
				return 1
			}
			// internal keys: larger sequence number first
			switch {
			case a.seq > b.seq:
				return -1
			case a.seq < b.seq:
				return 1
			}
			return 0
		}
		scan := func(backward bool) []sklKey {
			it := skl.NewIter(nil, nil, nil)
			var out []sklKey
			if backward {
				for kv := it.Last(); kv != nil; kv = it.Prev() {
					out = append(out, sklKey{string(kv.K.UserKey), uint64(kv.K.SeqNum())})
				}
			} else {
				for kv := it.First(); kv != nil; kv = it.Next() {
					out = append(out, sklKey{string(kv.K.UserKey), uint64(kv.K.SeqNum())})
				}
			}
			it.Close()
			return out
		}
		for i := 0; i < c.Inserters; i++ {
			i := i
			wg.Add(1)
			simrt.Go("inserter", func() {
				defer wg.Done()
				var inserter arenaskl.Inserter
				for _, in := range plans[i] {
					ik := base.MakeInternalKey([]byte(in.key.k), base.SeqNum(in.key.seq), base.InternalKeyKindSet)
					var err error
					if c.Inserter {
						err = inserter.Add(skl, ik, []byte(in.val))
					} else {
						err = skl.Add(ik, []byte(in.val))
					}
					switch err {
					case nil:
						if w, dup := success[in.key]; dup {
							simrt.Fail("oracle:skl", fmt.Sprintf("key %v inserted successfully twice (values %s and %s)", in.key, w, in.val))
						}
						success[in.key] = in.val
						done[in.key] = true
					case arenaskl.ErrRecordExists:
						exists[in.key]++
					default:
						simrt.Fail("oracle:skl", fmt.Sprintf("Add(%v) failed: %v", in.key, err))
					}
					simrt.Progress()
				}
			})
		}
		for i := 0; i < c.Readers; i++ {
			wg.Add(1)
			simrt.Go("reader", func() {
				defer wg.Done()
				for n := 0; n < 3; n++ {
					// every insert that returned before the scan starts must be seen
					var before []sklKey
					for k := range done {
						before = append(before, k)
					}
					backward := n%2 == 1
					got := scan(backward)
					seen := map[sklKey]bool{}
					for j, k := range got {
						seen[k] = true
						if j > 0 {
							c := cmpKeys(got[j-1], k)
							if (!backward && c >= 0) || (backward && c <= 0) {
								simrt.Fail("oracle:skl", fmt.Sprintf("concurrent reader (backward=%v) saw keys out of order: %v then %v", backward, got[j-1], k))
							}
						}
					}
					// C30 promises concurrent readers an ordered *subset* only. A
					// reverse scan can indeed miss a key whose insert had returned
					// while a neighbouring insert is in flight (its successor's prev
					// link is still stale; DESIGN.md 5.8): counted, not judged.
					for _, k := range before {
						if !seen[k] {
							res.Stats["probe.skl_completed_key_missed"]++
							if !backward {
								res.Stats["probe.skl_completed_key_missed_forward"]++
							}
						}
					}
					// the subset part: nothing that was never attempted
					for _, k := range got {
						if !attemptedKeys[k] {
							simrt.Fail("oracle:skl", fmt.Sprintf("concurrent reader (backward=%v) saw key %v that nobody inserted", backward, k))
						}
					}
					res.Stats["check.skl_concurrent_scan"]++
					simrt.Progress()
				}
			})
		}
		wg.Wait()
		// quiescence: forward and backward traversals equal the sorted set of winners
		var want []sklKey
		for k := range success {
			want = append(want, k)
		}
		sort.Slice(want, func(a, b int) bool { return cmpKeys(want[a], want[b]) < 0 })
		fw := scan(false)
		bw := scan(true)
		if len(fw) != len(want) || len(bw) != len(want) {
			simrt.Fail("oracle:skl", fmt.Sprintf("after quiescence: %d successful inserts, forward scan has %d keys, backward scan %d: want %v forward %v backward %v", len(want), len(fw), len(bw), want, fw, bw))
		}
		for i := range want {
			if fw[i] != want[i] || bw[len(bw)-1-i] != want[i] {
				simrt.Fail("oracle:skl", fmt.Sprintf("after quiescence: traversal differs from the sorted set of inserted keys at %d: want %v forward %v backward %v", i, want, fw, bw))
			}
		}
		// every attempted key was inserted by exactly one task
		attempted := map[sklKey]int{}
		for _, p := range plans {
			for _, in := range p {
				attempted[in.key]++
			}
		}
		for k, n := range attempted {
			if _, ok := success[k]; !ok {
				simrt.Fail("oracle:skl", fmt.Sprintf("key %v: %d attempts, none succeeded (%d ErrRecordExists)", k, n, exists[k]))
			}
			if exists[k] != n-1 {
				simrt.Fail("oracle:skl", fmt.Sprintf("key %v: %d attempts, 1 success expected and %d ErrRecordExists, got %d", k, n, n-1, exists[k]))
			}
			if n > 1 {
				res.Stats["probe.skl_duplicate_keys"]++
			}
		}
		res.Stats["records"] = int64(len(want))
	})
	res.Stats["fake_ns"] = int64(time.Since(start))
	finish(res, rr, sim)
	res.Nontrivial = res.Stats["records"] > 2 && res.Stats["yields"] > 10
	res.CaseHash = fmt.Sprintf("%016x", caseHash(plan)^plan.Seed)
	res.Sample = map[string]any{"cfg": c, "sched": plan.Sched}
}
