package engine

import (
	"fmt"
	"io"
	"sort"
	"strings"

	"github.com/cockroachdb/pebble"
	"github.com/cockroachdb/pebble/batchrepr"
	"github.com/cockroachdb/pebble/verifsim/kvmodel"
	"github.com/cockroachdb/pebble/verifsim/simfs"
	"github.com/cockroachdb/pebble/verifsim/simrt"
	"github.com/cockroachdb/pebble/wal"
)

// durPoint says: once the disk log reached ackIdx, the first pos groups of the
// history are durable (successful Flush, Close with WAL, recovery).
type durPoint struct {
	pos    int
	ackIdx int
	what   string
}

// readAll reads the complete visible state of a DB: points and defragmented
// range-key spans.
func readAll(db pebble.Reader) ([]kvmodel.KV, []kvmodel.Span, error) {
	it, err := db.NewIter(&pebble.IterOptions{KeyTypes: pebble.IterKeyTypePointsOnly})
	if err != nil {
		return nil, nil, err
	}
	pts, err := scanPoints(it)
	if cerr := it.Close(); err == nil {
		err = cerr
	}
	if err != nil {
		return nil, nil, err
	}
	it, err = db.NewIter(&pebble.IterOptions{KeyTypes: pebble.IterKeyTypeRangesOnly})
	if err != nil {
		return nil, nil, err
	}
	var spans []kvmodel.Span
	for ok := it.First(); ok; ok = it.Next() {
		s, e := it.RangeBounds()
		sp := kvmodel.Span{Start: string(s), End: string(e)}
		for _, rk := range it.RangeKeys() {
			sp.Keys = append(sp.Keys, kvmodel.RKey{Suf: string(rk.Suffix), Val: string(rk.Value)})
		}
		spans = append(spans, sp)
	}
	err = it.Error()
	if cerr := it.Close(); err == nil {
		err = cerr
	}
	return pts, spans, err
}

func diffSpans(want, got []kvmodel.Span) string {
	for i := 0; i < len(want) || i < len(got); i++ {
		switch {
		case i >= len(want):
			return fmt.Sprintf("extra range-key span %s", kvmodel.FormatSpans(got[i:i+1]))
		case i >= len(got):
			return fmt.Sprintf("missing range-key span %s", kvmodel.FormatSpans(want[i:i+1]))
		}
		w, g := want[i], got[i]
		if w.Start != g.Start || w.End != g.End || len(w.Keys) != len(g.Keys) {
			return fmt.Sprintf("range-key span %d: model %s, got %s", i, kvmodel.FormatSpans(want[i:i+1]), kvmodel.FormatSpans(got[i:i+1]))
		}
		for j := range w.Keys {
			if w.Keys[j] != g.Keys[j] {
				return fmt.Sprintf("range-key span %d: model %s, got %s", i, kvmodel.FormatSpans(want[i:i+1]), kvmodel.FormatSpans(got[i:i+1]))
			}
		}
	}
	return ""
}

func diffState(st *kvmodel.State, pts []kvmodel.KV, spans []kvmodel.Span) string {
	if d := kvmodel.DiffPoints(st.Points(), pts); d != "" {
		return d
	}
	return diffSpans(st.Spans(), spans)
}

// crashBounds computes, for a crash right before disk mutation k of the
// current segment, the groups that must be present (lo), the bound ignoring
// ingest/excise acknowledgements (loNoIngest), the number of acknowledged
// groups (nAcked) and the group in flight, if any.
type crashCtx struct {
	k                      int
	lo, loNoIngest, nAcked int
	inflight               *groupInfo
	ackedDurable           []*kvmodel.Group // durable ingests/excises acknowledged by k
	// inSpan, if set, restricts the comparison to point keys inside a span
	// (restricted checkpoints); range keys are then not compared.
	inSpan func(k string) bool
}

func (h *dbHarness) crashCtxAt(k int) *crashCtx {
	c := &crashCtx{k: k}
	c.lo, c.loNoIngest, c.nAcked, c.inflight = h.crashBounds(k)
	for _, gi := range h.groups {
		if gi.ackIdx >= 0 && gi.ackIdx <= k && gi.sync && gi.g.Kind != "batch" && gi.pos > 0 {
			c.ackedDurable = append(c.ackedDurable, gi.g)
		}
	}
	sort.Slice(c.ackedDurable, func(a, b int) bool { return c.ackedDurable[a].ID < c.ackedDurable[b].ID })
	return c
}

func (h *dbHarness) crashBounds(k int) (lo, loNoIngest, nAcked int, inflight *groupInfo) {
	for _, d := range h.durs {
		if d.ackIdx <= k && d.pos > loNoIngest {
			loNoIngest = d.pos
		}
	}
	lo = loNoIngest
	for _, gi := range h.groups {
		acked := gi.ackIdx >= 0 && gi.ackIdx <= k && gi.pos > 0
		if acked {
			if gi.pos > nAcked {
				nAcked = gi.pos
			}
			if gi.sync {
				if gi.pos > lo {
					lo = gi.pos
				}
				if gi.g.Kind == "batch" && gi.pos > loNoIngest {
					loNoIngest = gi.pos
				}
			}
		} else if gi.startIdx <= k && (gi.ackIdx < 0 || gi.ackIdx > k) && inflight == nil {
			if gi.pos > 0 || gi.ackIdx < 0 {
				inflight = gi
			}
		}
	}
	return
}

type recoverMatch struct {
	j        int  // number of leading groups recovered
	inflight bool // plus the in-flight group
	commuted bool // matched only when durable ingests/excises past lost groups are kept
	extra    []*kvmodel.Group
	overlap  bool
}

// matchRecovered finds the explanation of a recovered state for a crash at
// index k: some prefix of the history (in commit order) that contains every
// acknowledged-durable group, optionally followed by the in-flight group.
func (h *dbHarness) matchRecovered(c *crashCtx, pts []kvmodel.KV, spans []kvmodel.Span) (*recoverMatch, string) {
	k, lo, loNoIngest, nAcked, inflight := c.k, c.lo, c.loNoIngest, c.nAcked, c.inflight
	groups := h.model.Groups
	if nAcked > len(groups) {
		nAcked = len(groups)
	}
	var firstDiff string
	if c.inSpan != nil {
		var f []kvmodel.KV
		for _, kv := range pts {
			if c.inSpan(kv.K) {
				f = append(f, kv)
			}
		}
		pts = f
	}
	try := func(st *kvmodel.State) bool {
		var d string
		if c.inSpan != nil {
			var want []kvmodel.KV
			for _, kv := range st.Points() {
				if c.inSpan(kv.K) {
					want = append(want, kv)
				}
			}
			d = kvmodel.DiffPoints(want, pts)
		} else {
			d = diffState(st, pts, spans)
		}
		if d != "" && firstDiff == "" {
			firstDiff = d
		}
		return d == ""
	}
	// Strict prefixes, longest first.
	if inflight != nil {
		st := h.model.StateAt(nAcked).Clone()
		st.ApplyGroup(inflight.g)
		if try(st) {
			return &recoverMatch{j: nAcked, inflight: true}, ""
		}
	}
	for j := nAcked; j >= lo; j-- {
		if try(h.model.StateAt(j)) {
			return &recoverMatch{j: j}, ""
		}
	}
	// Commutation prefixes (DESIGN.md 5.1): a durable ingest/excise may
	// survive while earlier, not acknowledged-durable groups are lost.
	inflightDurableKind := inflight != nil && inflight.g.Kind != "batch"
	for j := nAcked; j >= loNoIngest; j-- {
		var extra []*kvmodel.Group
		inPrefix := map[*kvmodel.Group]bool{}
		for _, g := range groups[:j] {
			inPrefix[g] = true
		}
		for _, g := range c.ackedDurable {
			if !inPrefix[g] {
				extra = append(extra, g)
			}
		}
		if len(extra) == 0 && (!inflightDurableKind || j == nAcked) {
			continue // a strict prefix, already tried above
		}
		st := h.model.StateAt(j).Clone()
		for _, g := range extra {
			st.ApplyGroup(g)
		}
		ok := len(extra) > 0 && try(st)
		withInflight := false
		if !ok && inflight != nil {
			st.ApplyGroup(inflight.g)
			ok = try(st)
			withInflight = ok
		}
		if ok {
			m := &recoverMatch{j: j, commuted: true, extra: extra, inflight: withInflight}
			// every lost group must be key-disjoint from the surviving later ones
			for p := j; p < nAcked; p++ {
				lost := groups[p]
				isExtra := false
				for _, e := range extra {
					if e == lost {
						isExtra = true
					}
				}
				if isExtra {
					continue
				}
				for _, e := range extra {
					if e.ID > lost.ID && groupsOverlap(lost, e) {
						m.overlap = true
					}
				}
			}
			return m, ""
		}
	}
	desc := fmt.Sprintf("crash before disk mutation %d: recovered state matches no prefix of the history containing all acknowledged-durable groups (must include the first %d groups, %d were acknowledged, in-flight=%v); vs longest candidate: %s",
		k, lo, nAcked, inflight != nil, firstDiff)
	return nil, desc
}

type keyIv struct {
	lo, hi string
	incl   bool // hi is inclusive (a point key)
}

func groupIntervals(g *kvmodel.Group) []keyIv {
	var out []keyIv
	if g.Kind == "excise" || g.Kind == "ingestexcise" {
		out = append(out, keyIv{g.ExStart, g.ExEnd, false})
	}
	for _, o := range g.Ops {
		switch o.K {
		case "logdata":
		case "delrange", "rkset", "rkunset", "rkdel":
			out = append(out, keyIv{o.Key, o.End, false})
		default:
			out = append(out, keyIv{o.Key, o.Key, true})
		}
	}
	return out
}

func ivOverlap(a, b keyIv) bool {
	// a.lo <(=) b.hi and b.lo <(=) a.hi
	c1 := kvmodel.Compare(a.lo, b.hi)
	c2 := kvmodel.Compare(b.lo, a.hi)
	ok1 := c1 < 0 || (c1 == 0 && b.incl)
	ok2 := c2 < 0 || (c2 == 0 && a.incl)
	return ok1 && ok2
}

// groupsOverlap reports whether some operation of a touches a key or span
// touched by some operation of b.
func groupsOverlap(a, b *kvmodel.Group) bool {
	for _, x := range groupIntervals(a) {
		for _, y := range groupIntervals(b) {
			if ivOverlap(x, y) {
				return true
			}
		}
	}
	return false
}

// verifyImage opens a DB on a crash image in the calling task's incarnation,
// reads everything and matches it against the history. It returns the match
// (nil plus a description on a violation).
func (h *dbHarness) verifyImage(img *simfs.Disk, c *crashCtx, what string) (*recoverMatch, string) {
	if d := h.checkLogicalWAL(img); d != "" {
		return nil, what + ": " + d
	}
	opts := h.makeOptionsOn(img)
	// Open at the lowest supported version so that the version found on disk
	// is what the recovered DB reports (Open ratchets up to the option).
	opts.FormatMajorVersion = pebble.FormatMinSupported
	opts.EnsureDefaults()
	db, err := pebble.Open("db", opts)
	if err != nil {
		return nil, fmt.Sprintf("%s: Open failed on a crash image whose only fault is loss of unsynced data: %v", what, err)
	}
	if d := h.checkRecoveredFMV(int(db.FormatMajorVersion()), c.k, img); d != "" {
		db.Close()
		return nil, what + ": " + d
	}
	pts, spans, err := readAll(db)
	if err != nil {
		db.Close()
		return nil, fmt.Sprintf("%s: reading the recovered DB failed: %v", what, err)
	}
	var m *recoverMatch
	var desc string
	if h.conc != nil {
		m, desc = h.matchRecoveredConc(c.k, pts, spans)
	} else {
		m, desc = h.matchRecovered(c, pts, spans)
	}
	if cerr := db.Close(); cerr != nil && m != nil {
		return nil, fmt.Sprintf("%s: Close of the recovered DB failed: %v", what, cerr)
	}
	if m == nil {
		return nil, what + ": " + desc
	}
	return m, ""
}

// durScan records one OnlyReadGuaranteedDurable scan: it showed the state after
// the first k groups when the disk log had idx entries (C13).
type durScan struct {
	idx, k   int
	commuted bool
}

// execDurScan scans the whole key space with an OnlyReadGuaranteedDurable
// iterator. The view must equal the model after some prefix of the history;
// a crash taken at this moment must recover a state containing that prefix
// (checked by the crash forks of this segment).
func (h *dbHarness) execDurScan() {
	idx := h.disk.LogLen()
	opts := &pebble.IterOptions{OnlyReadGuaranteedDurable: true, KeyTypes: pebble.IterKeyTypePointsAndRanges}
	var it *pebble.Iterator
	var err error
	if h.r.IntN(3) == 0 {
		// an ordinary iterator switched to the durable-only view: SetOptions
		// must rebuild the stack without the memtables
		it, err = h.db.NewIter(&pebble.IterOptions{KeyTypes: pebble.IterKeyTypePointsAndRanges})
		if err == nil {
			it.First()
			it.SetOptions(opts)
			h.count("probe.durscan_via_setoptions", 1)
		}
	} else {
		it, err = h.db.NewIter(opts)
	}
	if err != nil {
		h.opErr("newiter-durable", err)
		return
	}
	var pts []kvmodel.KV
	var spans []kvmodel.Span
	for ok := it.First(); ok; ok = it.Next() {
		hasPoint, hasRange := it.HasPointAndRange()
		if hasPoint {
			v, verr := it.ValueAndErr()
			if verr != nil {
				err = verr
				break
			}
			pts = append(pts, kvmodel.KV{K: string(it.Key()), V: string(v)})
		}
		if hasRange {
			st, en := it.RangeBounds()
			if n := len(spans); n == 0 || spans[n-1].Start != string(st) {
				sp := kvmodel.Span{Start: string(st), End: string(en)}
				for _, rk := range it.RangeKeys() {
					sp.Keys = append(sp.Keys, kvmodel.RKey{Suf: string(rk.Suffix), Val: string(rk.Value)})
				}
				spans = append(spans, sp)
			}
		}
	}
	if err == nil {
		err = it.Error()
	}
	if cerr := it.Close(); err == nil {
		err = cerr
	}
	if err != nil {
		h.opErr("scan-durable", err)
		return
	}
	n := h.model.Len()
	// smallest matching prefix: the weakest (sound) requirement for the crash
	for j := 0; j <= n; j++ {
		if diffState(h.model.StateAt(j), pts, spans) == "" {
			h.durScans = append(h.durScans, durScan{idx: idx, k: j})
			h.count("check.durscan", 1)
			if j < n {
				h.count("probe.durscan_behind_latest", 1)
			}
			return
		}
	}
	// The durable view is the LSM without memtables: an ingest/excise that went
	// straight into the LSM is in it, earlier unflushed batches are not (5.1).
	// An ingest/excise that overlapped a memtable sits in the flushable queue
	// like a batch, so any subset of the later ingests/excises may be in the
	// durable view.
	for j := n; j >= 0; j-- {
		var later []*kvmodel.Group
		for _, gi := range h.groups {
			if gi.pos > j && gi.g.Kind != "batch" && gi.ackIdx >= 0 {
				later = append(later, gi.g)
			}
		}
		if len(later) == 0 || len(later) > 8 {
			continue
		}
		for mask := 1; mask < 1<<uint(len(later)); mask++ {
			st := h.model.StateAt(j).Clone()
			for i, g := range later {
				if mask&(1<<uint(i)) != 0 {
					st.ApplyGroup(g)
				}
			}
			if diffState(st, pts, spans) == "" {
				h.addKnown("C13:durable-view-has-ingest-past-unflushed-batches")
				h.durScans = append(h.durScans, durScan{idx: idx, k: j, commuted: true})
				h.count("check.durscan", 1)
				h.count("probe.durscan_commuted", 1)
				return
			}
		}
	}
	Violation("durable-view", "an OnlyReadGuaranteedDurable scan (points and range keys) after %d groups equals the model after no prefix of the history: vs latest: %s", n, diffState(h.model.StateAt(n), pts, spans))
}

// fmvFloor records that a format ratchet to version v had returned when the
// disk log of the current segment had idx entries.
type fmvFloor struct {
	idx, v int
}

// checkRecoveredFMV: the format major version found after a crash before disk
// mutation k must be at least every version whose ratchet had returned by
// then, never below the version the store had at the start of the segment,
// and never above the highest version ever requested (C40).
func (h *dbHarness) checkRecoveredFMV(got, k int, img *simfs.Disk) string {
	hasMarker := false
	for _, n := range img.ListNoFault("db") {
		if strings.HasPrefix(n, "marker.format-version.") {
			hasMarker = true
		}
	}
	if !hasMarker {
		return "" // the crash predates the store's (durable) creation: a fresh store is created
	}
	min := 0
	if h.segment > 1 {
		// the version this incarnation found on disk was already durable
		min = h.fmvCarried
	}
	for _, f := range h.fmvFloors {
		if f.idx <= k && f.v > min {
			min = f.v
		}
	}
	if min > 0 && got < min {
		return fmt.Sprintf("recovered format major version %d is lower than %d, which a completed RatchetFormatMajorVersion (or the previous incarnation) had established", got, min)
	}
	if h.fmvMax > 0 && got > h.fmvMax {
		return fmt.Sprintf("recovered format major version %d is higher than any version ever requested (%d)", got, h.fmvMax)
	}
	h.count("check.fmv_recovered", 1)
	return ""
}

// noteMatch turns a match into statistics / known-finding signatures /
// violations according to the armed oracles.
func (h *dbHarness) noteMatch(m *recoverMatch, what string) {
	h.count("img.verified", 1)
	if m.inflight {
		h.count("img.inflight_recovered", 1)
	}
	if m.commuted {
		if m.overlap {
			Violation("recovery-nonprefix", "%s: a durable ingest/excise survived while an earlier overlapping group was lost", what)
		}
		h.count("img.commuted", 1)
		h.addKnown("C11:ingest-commutes-past-unsynced-batches")
		if h.armed("strict-prefix") {
			h.known5_1 = true
		}
	}
}

func (h *dbHarness) addKnown(sig string) {
	for _, s := range h.res.Known {
		if s == sig {
			return
		}
	}
	h.res.Known = append(h.res.Known, sig)
}

func (h *dbHarness) armed(o string) bool { return true }

// forkSpecs are the survival specs used for crash forks.
func forkSpecs(r *simrt.Rng, thorough bool) []simfs.Survival {
	specs := []simfs.Survival{{Mode: "none"}, {Mode: "all"}, {Mode: "pct", Pct: 30, Seed: r.Next()}, {Mode: "prefix", Pct: 50, Seed: r.Next()}}
	if thorough {
		specs = append(specs, simfs.Survival{Mode: "pct", Pct: 70, Seed: r.Next()})
	}
	return specs
}

// runForks verifies crash images of the current segment's disk at the given
// mutation indices, each in a side incarnation. Called by the root task while
// no other incarnation is running.
func (h *dbHarness) runForks(indices []int, thorough bool) {
	if len(indices) == 0 {
		return
	}
	disk := h.disk
	forkInc := &simrt.Inc{ID: 1000 + h.segment}
	done := false
	simrt.GoIn("forks", forkInc, 0, func() {
		defer func() { done = true; simrt.Wake(h.rootKeyAddr()) }()
		// incremental replay cursor
		cur := disk.ReplayPrefix(0)
		at := 0
		for _, k := range indices {
			for at < k {
				cur.ApplyLogged(disk, at)
				at++
			}
			specs := forkSpecs(&h.r, thorough)
			if h.plan.Profile == "manifest" {
				// enumerate every survival subset when the unsynced set is small
				if items := cur.UnsyncedItems(0); len(items) > 0 && len(items) <= 5 {
					specs = nil
					for mask := uint64(0); mask < 1<<uint(len(items)); mask++ {
						specs = append(specs, simfs.Survival{Mode: "mask", Mask: mask})
					}
					h.count("img.exhaustive_subsets", 1)
				}
			}
			for _, spec := range specs {
				img := cur.CrashImage(spec)
				img.NoYield = false
				what := fmt.Sprintf("crash fork at mutation %d/%d (%s), survival %s", k, disk.LogLen(), opDesc(disk, k), spec)
				m, desc := h.verifyImage(img, h.crashCtxAt(k), what)
				if m == nil {
					Violation("recovery", "%s", desc)
				}
				h.noteMatch(m, what)
				h.count("img.forks", 1)
				// C13: a crash at the moment of a durable-only scan must recover
				// at least what that scan showed.
				if spec.Mode == "none" {
					for _, ds := range h.durScans {
						if ds.idx == k && m.j < ds.k && !ds.commuted && !m.commuted {
							Violation("durable-view", "an OnlyReadGuaranteedDurable scan showed the state after %d groups when the disk log had %d entries, but a crash at that moment that keeps only durable data recovers only %d groups", ds.k, k, m.j)
						}
					}
				}
				simrt.Progress()
			}
		}
	})
	for !done {
		simrt.Block(h.rootKeyAddr())
	}
}

func opDesc(d *simfs.Disk, k int) string {
	if k >= d.LogLen() {
		return "end of log"
	}
	return "next: " + d.LogOp(k).String()
}

// pickForkIndices chooses the crash points of a segment: every index
// (enumeration) or a sample biased towards mutations of WAL, MANIFEST and
// marker files and directory syncs.
func (h *dbHarness) pickForkIndices(n int, all bool) []int {
	total := h.disk.LogLen()
	if all || total <= n {
		out := make([]int, 0, total+1)
		for i := 0; i <= total; i++ {
			out = append(out, i)
		}
		return out
	}
	seen := map[int]bool{total: true}
	var interesting []int
	for i := 0; i < total; i++ {
		op := h.disk.LogOp(i)
		c := simfs.ClassOf(op.Path)
		if op.Kind == simfs.OpSyncDir || op.Kind == simfs.OpRename || op.Kind == simfs.OpReuse || op.Kind == simfs.OpRemove || c == simfs.ClsManifest || c == simfs.ClsMarker || (c == simfs.ClsWAL && op.Kind != simfs.OpWrite) || op.Kind == simfs.OpLink {
			interesting = append(interesting, i, i+1)
		}
	}
	for _, ds := range h.durScans {
		seen[ds.idx] = true
	}
	for _, k := range h.extraForks {
		if k <= total {
			seen[k] = true
		}
	}
	// The instant a durable acknowledgement was given is the most adversarial
	// crash point for it: nothing later has had the chance to sync the data
	// on its behalf.
	nAck := 0
	if h.conc != nil {
		for _, g := range h.conc.groups {
			if g.sync && g.ackIdx >= 0 && g.ackIdx <= total && nAck < 48 && !seen[g.ackIdx] {
				seen[g.ackIdx] = true
				nAck++
			}
		}
	}
	for _, gi := range h.groups {
		if gi.sync && gi.ackIdx > 0 && gi.ackIdx <= total && nAck < 48 && !seen[gi.ackIdx] {
			seen[gi.ackIdx] = true
			nAck++
		}
	}
	n += nAck
	if h.plan.Profile == "manifest" {
		// every mutation of MANIFEST / marker files and every directory
		// operation (before and after it), up to a cap
		for _, k := range interesting {
			if len(seen) < 600 && k <= total {
				seen[k] = true
			}
		}
		n = len(seen)
	}
	for len(seen) < n {
		var k int
		if len(interesting) > 0 && h.r.IntN(3) != 0 {
			k = interesting[h.r.IntN(len(interesting))]
		} else {
			k = h.r.IntN(total + 1)
		}
		seen[k] = true
	}
	out := make([]int, 0, len(seen))
	for k := range seen {
		out = append(out, k)
	}
	sort.Ints(out)
	return out
}

// rebase makes the recovered state the new baseline of the history after a
// main-line crash.
func (h *dbHarness) rebase(m *recoverMatch, inflight *groupInfo) {
	var keep []*kvmodel.Group
	keep = append(keep, h.model.Groups[:m.j]...)
	if m.commuted {
		keep = append(keep, m.extra...)
	}
	if m.inflight && inflight != nil {
		keep = append(keep, inflight.g)
	}
	h.model.Reset(keep)
	h.groups = nil
	for i, g := range keep {
		h.groups = append(h.groups, &groupInfo{g: g, pos: i + 1, sync: true, startIdx: 0, ackIdx: 0})
	}
	h.durs = []durPoint{{pos: len(keep), ackIdx: 0, what: "recovery"}}
}

var _ = strings.Join

// noteUndurableVersion looks, after a client operation, for tables or blob
// files that the installed version references but whose directory entry or
// data a crash could still lose. Installing a version edit promises that its
// files are durable (C22), so such an instant is made a crash-fork point: the
// ordinary recovery oracle then decides (Open must succeed and contain every
// acknowledged-durable group). The monitor only steers the sampling of crash
// points; it reports nothing by itself.
func (h *dbHarness) noteUndurableVersion() {
	if h.forkMode == "" || h.db == nil || len(h.extraForks) >= 12 {
		return
	}
	files := h.db.VerifsimCurrentFiles()
	nums := make([]uint64, 0, len(files))
	for n := range files {
		nums = append(nums, n)
	}
	sort.Slice(nums, func(i, j int) bool { return nums[i] < nums[j] })
	for _, n := range nums {
		for _, ext := range []string{"sst", "blob"} {
			p := fmt.Sprintf("db/%06d.%s", n, ext)
			if !h.disk.Exists(p) {
				continue
			}
			if entry, data := h.disk.Durable(p); !entry || !data {
				h.count("probe.version_references_undurable_file", 1)
				h.extraForks = append(h.extraForks, h.disk.LogLen())
				return
			}
		}
	}
}

// checkLogicalWAL reads the logical WALs of a crash image back the way
// recovery does (wal.Scan + OpenForRead over the primary and, with failover,
// the secondary directory): within each logical WAL and across WALs in
// ascending number, batches must come back in sequence-number order and no
// batch twice (each batch starts at or after the end of the previous one's
// sequence-number range). The read stops at the first error (a torn tail is
// expected after a crash). C21, C07.
func (h *dbHarness) checkLogicalWAL(img *simfs.Disk) string {
	if h.cfg.DisableWAL {
		return ""
	}
	was := img.NoYield
	img.NoYield = true
	defer func() { img.NoYield = was }()
	var dirs []wal.Dir
	for _, d := range []string{"db", "wal2"} {
		if img.Exists(d) {
			dirs = append(dirs, wal.Dir{FS: img, Dirname: d})
		}
	}
	if len(dirs) == 0 {
		return ""
	}
	logs, err := wal.Scan(dirs...)
	if err != nil {
		return fmt.Sprintf("wal.Scan failed on the crash image: %v", err)
	}
	var lastEnd uint64
	var lastDesc string
	for _, ll := range logs {
		if ll.NumSegments() > 1 {
			h.count("probe.wal_multi_segment", 1)
		}
		rd := ll.OpenForRead()
		for {
			rec, off, err := rd.NextRecord()
			if err != nil {
				break
			}
			b, err := io.ReadAll(rec)
			if err != nil || len(b) < batchrepr.HeaderLen {
				break
			}
			hdr, ok := batchrepr.ReadHeader(b)
			if !ok {
				break
			}
			seq := uint64(hdr.SeqNum)
			if seq == 0 {
				continue
			}
			desc := fmt.Sprintf("batch seqnum %d count %d in WAL %s at %s", seq, hdr.Count, ll.Num, off)
			if seq < lastEnd {
				rd.Close()
				return fmt.Sprintf("reading the logical WAL back: %s comes after %s, whose sequence-number range ends at %d (out of order or replayed twice)", desc, lastDesc, lastEnd)
			}
			lastEnd = seq + uint64(hdr.Count)
			lastDesc = desc
			h.count("check.wal_record", 1)
		}
		rd.Close()
	}
	return ""
}
