package engine

import (
	"context"
	"encoding/json"
	"fmt"
	"testing"
	"time"

	"github.com/anishathalye/porcupine"
	"github.com/cockroachdb/errors"
	"github.com/cockroachdb/pebble/internal/base"
	"github.com/cockroachdb/pebble/internal/cache"
	"github.com/cockroachdb/pebble/verifsim/simrt"
	"github.com/cockroachdb/pebble/verifsim/simsync"
)

// cacheEngine decides C34 on the real block cache with concurrent client
// tasks: linearizability against a register-per-block model (porcupine),
// value integrity while referenced, agreement of concurrent readers of one
// block, and the size bound.
type cacheEngine struct{}

func init() { Register("cache", &cacheEngine{}) }

type cacheCfg struct {
	Size    int64 `json:"size"`
	Shards  int   `json:"shards"`
	Clients int   `json:"clients"`
	Ops     int   `json:"ops"`
	Files   int   `json:"files"`
	Offsets int   `json:"offsets"`
	ValMax  int   `json:"valmax"`
}

func (e *cacheEngine) Generate(profile string, seed uint64, tier string) (*Plan, error) {
	r := simrt.NewRng(seed, 6000)
	c := cacheCfg{Size: pick(&r, []int64{600, 2000, 8000, 1 << 20}), Shards: 1 + r.IntN(2), Clients: 2 + r.IntN(3), Ops: 6 + r.IntN(10),
		Files: 1 + r.IntN(2), Offsets: 1 + r.IntN(3), ValMax: pick(&r, []int{64, 300, 900})}
	if tier == "thorough" {
		c.Ops = 6 + r.IntN(16)
	}
	p := &Plan{Engine: "cache", Profile: profile, Seed: seed, Tier: tier}
	p.Sched = genSched(&r, true)
	if p.Sched.Policy == "pct" {
		p.Sched.PCTHorizon = 500
	}
	p.Cfg = mustJSON(c)
	return p, nil
}

type cacheKey struct {
	h, file, off int
}

type cacheIn struct {
	op  string // get set delete evict
	key cacheKey
	tag int
}

type cacheOut struct {
	tag int // 0 = miss
}

func fillVal(b []byte, k cacheKey, tag int) {
	hdr := fmt.Sprintf("h%d.f%d.o%d.t%d|", k.h, k.file, k.off, tag)
	for i := range b {
		if i < len(hdr) {
			b[i] = hdr[i]
		} else {
			b[i] = byte('A' + (tag+i)%26)
		}
	}
}

// parseVal verifies a value's self-describing contents and returns its tag.
func parseVal(b []byte, k cacheKey) (int, error) {
	var h, f, o, tag int
	if _, err := fmt.Sscanf(string(b), "h%d.f%d.o%d.t%d|", &h, &f, &o, &tag); err != nil {
		return 0, errors.Newf("unparsable value %q", shortv(string(b)))
	}
	if h != k.h || f != k.file || o != k.off {
		return 0, errors.Newf("value %q belongs to another block", shortv(string(b)))
	}
	hdr := fmt.Sprintf("h%d.f%d.o%d.t%d|", h, f, o, tag)
	for i := len(hdr); i < len(b); i++ {
		if b[i] != byte('A'+(tag+i)%26) {
			return 0, errors.Newf("value bytes damaged at %d: %q", i, shortv(string(b)))
		}
	}
	return tag, nil
}

func (e *cacheEngine) Execute(t *testing.T, plan *Plan, res *Result) {
	var c cacheCfg
	if err := json.Unmarshal(plan.Cfg, &c); err != nil {
		res.Status, res.Msg = "tooling", err.Error()
		return
	}
	cfg := plan.Sched.simCfg()
	cfg.Horizon = time.Minute
	sim := simrt.New(plan.Sched.Seed, cfg)
	var ops []porcupine.Operation
	evSeq := int64(0)
	stamp := func() int64 { evSeq++; return evSeq }
	nextTag := 0
	inflight := 0
	known := false
	readTags := map[int]bool{}   // values produced by designated readers (SetReadValue)
	readTagAt := map[int]int64{} // event stamp at which the delivery of such a value completed
	type rhCall struct{ call, ret int64 }
	rhCalls := map[cacheKey][]*rhCall{} // GetWithReadHandle calls per block (ret 0 = under way)
	maxAdded := int64(0)
	alloc := func(n int) *cache.Value {
		if int64(n) > maxAdded {
			maxAdded = int64(n)
		}
		return cache.Alloc(n)
	}
	start := time.Now()
	rr := sim.Run(&simrt.Inc{ID: 1}, func() {
		ca := cache.NewWithShards(c.Size, c.Shards)
		handles := []*cache.Handle{ca.NewHandle(), ca.NewHandle()}
		var wg simsync.WaitGroup
		record := func(client int, in cacheIn, call int64, out cacheOut) {
			ops = append(ops, porcupine.Operation{ClientId: client, Input: in, Call: call, Output: out, Return: stamp()})
		}
		checkSize := func(what string) {
			if inflight == 0 {
				if sz, mx := ca.Size(), ca.MaxSize(); sz > mx {
					// Known finding (DESIGN.md 5.7): a shard evicts *before* it adds a
					// new block, so each shard may exceed its share by less than the
					// block just added. Anything beyond that bound is a violation.
					if sz < mx+int64(c.Shards)*maxAdded {
						known = true
						res.Stats["probe.cache_size_overshoot"]++
					} else {
						simrt.Fail("oracle:cache-size", fmt.Sprintf("%s: accounted size %d exceeds the capacity %d by more than one block per shard (largest block %d, %d shards) with no operation in flight and no reservation", what, sz, mx, maxAdded, c.Shards))
					}
				}
				res.Stats["check.cache_size"]++
			}
		}
		for cl := 0; cl < c.Clients; cl++ {
			cl := cl
			r := simrt.NewRng(plan.Seed, uint64(6100+cl))
			wg.Add(1)
			simrt.Go("client", func() {
				defer wg.Done()
				for i := 0; i < c.Ops; i++ {
					k := cacheKey{h: r.IntN(2), file: 1 + r.IntN(c.Files), off: r.IntN(c.Offsets)}
					h := handles[k.h]
					fn, off := base.DiskFileNum(k.file), uint64(k.off)
					inflight++
					call := stamp()
					switch x := r.IntN(100); {
					case x < 35: // Get
						v := h.Get(fn, off, base.MakeLevel(0), cache.CategorySSTableData)
						out := cacheOut{}
						if v != nil {
							tag, err := parseVal(v.RawBuffer(), k)
							if err != nil {
								simrt.Fail("oracle:cache-value", fmt.Sprintf("Get(%v): %v", k, err))
							}
							out.tag = tag
							// hold the value for a while: it must stay intact while referenced
							for y := 0; y < r.IntN(4); y++ {
								simrt.YieldNow("hold")
							}
							if _, err := parseVal(v.RawBuffer(), k); err != nil {
								simrt.Fail("oracle:cache-value", fmt.Sprintf("value of %v changed while a reference was held: %v", k, err))
							}
							v.Release()
							res.Stats["probe.cache_hit"]++
						}
						record(cl, cacheIn{op: "get", key: k}, call, out)
					case x < 60: // Set
						nextTag++
						tag := nextTag
						v := alloc(16 + r.IntN(c.ValMax))
						fillVal(v.RawBuffer(), k, tag)
						h.Set(fn, off, v)
						v.Release()
						record(cl, cacheIn{op: "set", key: k, tag: tag}, call, cacheOut{})
					case x < 70: // Delete
						h.Delete(fn, off)
						record(cl, cacheIn{op: "delete", key: k}, call, cacheOut{})
					case x < 76: // EvictFile
						h.EvictFile(fn)
						// EvictFile works shard by shard and in chunks, dropping the
						// shard mutex in between: it is not atomic across blocks. It
						// is therefore recorded as one clear per block of the file,
						// all spanning the call.
						ret := stamp()
						for o := 0; o < c.Offsets; o++ {
							ops = append(ops, porcupine.Operation{ClientId: cl, Input: cacheIn{op: "delete", key: cacheKey{h: k.h, file: k.file, off: o}}, Call: call, Output: cacheOut{}, Return: ret})
						}
					default: // GetWithReadHandle
						ctx := context.Background()
						if r.IntN(4) == 0 {
							// an impatient reader: if it has to wait for another task's
							// read of this block, it gives up after a simulated millisecond
							var cancel context.CancelFunc
							ctx, cancel = context.WithTimeout(ctx, time.Millisecond)
							defer cancel()
						}
						me := &rhCall{call: call}
						rhCalls[k] = append(rhCalls[k], me)
						v, rh, _, _, hit, err := h.GetWithReadHandle(ctx, fn, off, base.MakeLevel(0), cache.CategorySSTableData)
						if !rh.Valid() {
							me.ret = stamp()
						}
						switch {
						case v != nil && !hit:
							// The value was handed over by the concurrent designated
							// reader of this block (not read from the cache): it must be
							// a value some reader produced for exactly this block.
							tag, perr := parseVal(v.RawBuffer(), k)
							if perr != nil {
								simrt.Fail("oracle:cache-value", fmt.Sprintf("GetWithReadHandle(%v) (shared read): %v", k, perr))
							}
							v.Release()
							if !readTags[tag] {
								simrt.Fail("oracle:cache-value", fmt.Sprintf("GetWithReadHandle(%v) waited for a concurrent reader and received value %d, which no reader of that block produced", k, tag))
							}
							// ... and produced while this call was waiting: a value that a
							// reader delivered before this call began is not a concurrent
							// read's result but a leftover, and the block may have been
							// deleted or evicted since
							if at := readTagAt[tag]; at < call {
								// Legitimate only while some other reader of this block that
								// was already under way when this call began is still inside
								// its call: it keeps the shared read entry alive. Otherwise
								// the entry should have been dropped with its last reader.
								alive := false
								for _, w := range rhCalls[k] {
									if w.call < call && (w.ret == 0 || w.ret > call) {
										alive = true
									}
								}
								if !alive {
									simrt.Fail("oracle:cache-value", fmt.Sprintf("GetWithReadHandle(%v) reported a miss served by a concurrent reader, but the value it returned (%d) had been delivered at event %d, before this call began at event %d, and no other reader of the block was still under way then: a stale read entry outlived its readers", k, tag, at, call))
								}
								res.Stats["probe.cache_late_joiner"]++
							}
							res.Stats["probe.cache_shared_value"]++
						case err != nil:
							// another reader's error was handed to us
							res.Stats["probe.cache_shared_error"]++
							record(cl, cacheIn{op: "get", key: k}, call, cacheOut{})
						case v != nil:
							tag, perr := parseVal(v.RawBuffer(), k)
							if perr != nil {
								simrt.Fail("oracle:cache-value", fmt.Sprintf("GetWithReadHandle(%v): %v", k, perr))
							}
							v.Release()
							record(cl, cacheIn{op: "get", key: k}, call, cacheOut{tag: tag})
							res.Stats["probe.cache_hit"]++
						case rh.Valid():
							// we are the designated reader: the miss is observable now
							record(cl, cacheIn{op: "get", key: k}, call, cacheOut{})
							for y := 0; y < r.IntN(4); y++ {
								simrt.YieldNow("read")
							}
							if r.IntN(3) == 0 {
								// a slow read: simulated time passes, impatient waiters give up
								simrt.Sleep(2 * time.Millisecond)
								res.Stats["probe.cache_slow_read"]++
							}
							call2 := stamp()
							if r.IntN(5) == 0 {
								rh.SetReadError(errors.New("injected read error"))
								me.ret = stamp()
								res.Stats["probe.cache_read_error"]++
							} else {
								nextTag++
								tag := nextTag
								nv := alloc(16 + r.IntN(c.ValMax))
								readTags[tag] = true
								readTagAt[tag] = 1 << 60 // delivery in progress
								fillVal(nv.RawBuffer(), k, tag)
								rh.SetReadValue(nv)
								readTagAt[tag] = stamp() // delivery complete
								me.ret = readTagAt[tag]
								nv.Release()
								record(cl, cacheIn{op: "set", key: k, tag: tag}, call2, cacheOut{})
								res.Stats["probe.cache_read_value"]++
							}
						default:
							simrt.Fail("oracle:cache-value", fmt.Sprintf("GetWithReadHandle(%v) returned neither a value, a handle nor an error", k))
						}
					}
					inflight--
					checkSize("after an operation")
					simrt.Progress()
				}
			})
		}
		wg.Wait()
		checkSize("after all clients finished")
		for _, h := range handles {
			h.Close()
		}
		ca.Unref()
	})
	res.Stats["fake_ns"] = int64(time.Since(start))
	finish(res, rr, sim)
	if res.Status == "" && len(ops) > 0 {
		// Linearizability against a register per (handle,file): Get returns a
		// miss or the latest value stored for exactly that block; Delete and
		// EvictFile clear.
		model := porcupine.Model{
			Partition: func(history []porcupine.Operation) [][]porcupine.Operation {
				m := map[[3]int][]porcupine.Operation{}
				var keys [][3]int
				for _, o := range history {
					k := o.Input.(cacheIn).key
					pk := [3]int{k.h, k.file, k.off}
					if _, ok := m[pk]; !ok {
						keys = append(keys, pk)
					}
					m[pk] = append(m[pk], o)
				}
				var out [][]porcupine.Operation
				for _, k := range keys {
					out = append(out, m[k])
				}
				return out
			},
			Init: func() interface{} { return [4]int{} },
			Step: func(state, input, output interface{}) (bool, interface{}) {
				st := state.([4]int)
				in := input.(cacheIn)
				switch in.op {
				case "set":
					st[in.key.off] = in.tag
					return true, st
				case "delete":
					st[in.key.off] = 0
					return true, st
				case "evict":
					return true, [4]int{}
				default:
					out := output.(cacheOut)
					return out.tag == 0 || out.tag == st[in.key.off], st
				}
			},
			DescribeOperation: func(input, output interface{}) string {
				return fmt.Sprintf("%+v -> %+v", input, output)
			},
		}
		parts := model.Partition(ops)
		model.Partition = nil
		for _, part := range parts {
			if porcupine.CheckOperations(model, part) {
				continue
			}
			res.Status, res.Class = "violation", "oracle:cache-linearizability"
			res.Msg = fmt.Sprintf("the recorded history of cache operations on one (handle,file) is not linearizable with respect to the per-block register model (Get must return a miss or the latest value stored for exactly that block; Delete/EvictFile clear): %s", describeOps(part))
			break
		}
		res.Stats["check.cache_history_ops"] = int64(len(ops))
	}
	if known {
		res.Known = append(res.Known, "C34:size-overshoot-by-block-just-added")
	}
	res.Nontrivial = res.Stats["probe.cache_hit"] > 0 && res.Stats["yields"] > 10
	res.CaseHash = fmt.Sprintf("%016x", caseHash(plan)^plan.Seed)
	res.Sample = map[string]any{"cfg": c, "sched": plan.Sched, "history_ops": len(ops)}
}

func describeOps(ops []porcupine.Operation) string {
	s := ""
	for i, o := range ops {
		if i > 60 {
			s += " ..."
			break
		}
		s += fmt.Sprintf("\n  c%d [%d,%d] %+v -> %+v", o.ClientId, o.Call, o.Return, o.Input, o.Output)
	}
	return s
}
