package engine

import (
	"fmt"
	"sort"
	"strings"

	"github.com/cockroachdb/pebble/verifsim/kvmodel"
)

// mixW are the category weights of the mixed generator.
type mixW struct {
	write, ingest, ingestExcise, excise, flush, compact, scan, reopen, wait int
	snap, iter, ibatch, efos, ratchet, checkpoint, scanInternal, metrics    int
	extIngest                                                               int // external files with synthetic suffixes (C09)
	crash                                                                   int // main-line crashes (at most 3 per plan)
	rangeKeys, masking                                                      bool
	iterOpsPerStep                                                          int
	longLived                                                               bool // keep iterators and snapshots open for long
}

func (g *gen) iterOpts(rangeKeys, masking bool) *IterOpts {
	o := &IterOpts{}
	if g.r.IntN(2) == 0 {
		o.Lower, o.Upper = g.span()
		switch g.r.IntN(4) {
		case 0:
			o.Lower = ""
		case 1:
			o.Upper = ""
		}
	}
	if rangeKeys {
		o.KeyTypes = pick(&g.r, []int{0, 1, 2, 2, 2})
	}
	if masking && o.KeyTypes == 2 && g.r.IntN(4) != 0 {
		o.Mask = fmt.Sprintf("@%d", 1+g.r.IntN(11))
		o.MaskFilt = g.r.IntN(2) == 0
	}
	return o
}

// seekKey returns a key for seeks and limits: an existing-style key, a bare
// prefix or an in-between key.
func (g *gen) seekKey() string {
	switch g.r.IntN(8) {
	case 0:
		return pick(&g.r, g.pfx) + "x"
	case 1:
		return string([]byte{byte('a' + g.r.IntN(7))})
	case 2:
		return pick(&g.r, g.pfx) + fmt.Sprintf("@%d", 1+g.r.IntN(11))
	case 3:
		return pick(&g.r, g.pfx)
	}
	return g.key()
}

func (g *gen) iterOp(id int, rangeKeys, masking bool) DBOp {
	o := DBOp{K: "iterop", ID: id}
	x := g.r.IntN(100)
	switch {
	case x < 12:
		o.Mode, o.Key = "seekge", g.seekKey()
	case x < 20:
		o.Mode, o.Key = "seeklt", g.seekKey()
	case x < 27:
		o.Mode, o.Key = "seekprefixge", g.seekKey()
	case x < 31:
		o.Mode = "first"
	case x < 35:
		o.Mode = "last"
	case x < 57:
		o.Mode = "next"
	case x < 72:
		o.Mode = "prev"
	case x < 77:
		o.Mode = "nextprefix"
	case x < 81:
		o.Mode, o.Key, o.End = "seekgelimit", g.seekKey(), g.seekKey()
	case x < 84:
		o.Mode, o.Key, o.End = "seekltlimit", g.seekKey(), g.seekKey()
	case x < 89:
		o.Mode, o.End = "nextlimit", g.seekKey()
	case x < 93:
		o.Mode, o.End = "prevlimit", g.seekKey()
	case x < 97:
		o.Mode = "setbounds"
		if g.r.IntN(4) != 0 {
			o.Key, o.End = g.span()
		}
	default:
		o.Mode = "setopts"
		o.IO = g.iterOpts(rangeKeys, masking)
	}
	return o
}

func removeInt(xs []int, v int) []int {
	out := xs[:0]
	for _, x := range xs {
		if x != v {
			out = append(out, x)
		}
	}
	return out
}

// genMixed is the workload generator shared by the read-oriented profiles.
func (g *gen) genMixed(nops int, w mixW) {
	type cat struct {
		name string
		w    int
	}
	cats := []cat{{"write", w.write}, {"ingest", w.ingest}, {"ingestexcise", w.ingestExcise}, {"excise", w.excise}, {"flush", w.flush},
		{"compact", w.compact}, {"scan", w.scan}, {"reopen", w.reopen}, {"wait", w.wait}, {"snap", w.snap}, {"iter", w.iter}, {"ibatch", w.ibatch},
		{"efos", w.efos}, {"ratchet", w.ratchet}, {"checkpoint", w.checkpoint}, {"scaninternal", w.scanInternal}, {"metrics", w.metrics}, {"crash", w.crash}, {"extingest", w.extIngest}}
	ncrash := 0
	total := 0
	for _, c := range cats {
		total += c.w
	}
	var batches []int
	iterOps := w.iterOpsPerStep
	if iterOps == 0 {
		iterOps = 4
	}
	for i := 0; i < nops; i++ {
		x := g.r.IntN(total)
		name := ""
		for _, c := range cats {
			if x < c.w {
				name = c.name
				break
			}
			x -= c.w
		}
		if g.prof == "iofault" && g.r.IntN(3) == 0 {
			switch name {
			case "ingest", "ingestexcise", "excise", "flush", "compact", "reopen", "scan", "iter", "snap":
				// a one-shot fault placed inside the operation that follows
				g.add(DBOp{K: "armfault", Mode: pick(&g.r, armFaultNames), N: g.r.IntN(10)})
			}
		}
		if g.prof == "iofault" && name == "ingest" && len(g.pfx) >= 3 && g.r.IntN(3) == 0 {
			// The ingest's overlap check under a read fault: a table that spans
			// several prefixes is flushed, then a one-key table that lies
			// strictly inside its bounds - and replaces one of its keys - is
			// ingested while the N-th read of the store's own tables fails. The
			// ingest may fail; it must not succeed below the older version.
			lo := g.r.IntN(len(g.pfx) - 2)
			hi := lo + 2 + g.r.IntN(len(g.pfx)-lo-2)
			mid := lo + 1 + g.r.IntN(hi-lo-1)
			sfx := pick(&g.r, g.sfx)
			b := DBOp{K: "batch", Mode: "direct"}
			for _, k := range []string{g.pfx[lo], g.pfx[mid] + sfx, g.pfx[hi] + pick(&g.r, g.sfx)} {
				v, n := g.val()
				b.Sub = append(b.Sub, DBOp{K: "set", Key: k, Val: v, VLen: n % 200})
			}
			g.add(b)
			g.add(DBOp{K: "flush"})
			g.add(DBOp{K: "armfault", Mode: pick(&g.r, []string{"table-read", "table-read", "table-open"}), N: g.r.IntN(7)})
			v, n := g.val()
			g.add(DBOp{K: "ingest", Sub: []DBOp{{K: "table", Sub: []DBOp{{K: "set", Key: g.pfx[mid] + sfx, Val: v, VLen: n % 200}}}}})
			g.add(DBOp{K: "scan"})
			continue
		}
		if g.prof == "iofault" && name == "iter" && len(g.sfx) >= 3 && g.r.IntN(3) == 0 {
			// One iterator, several value blocks (or blob blocks), a cold cache:
			// a value is fetched from one block, the read of the next block
			// fails once, and the same iterator is used again for keys whose
			// values live in the block whose read failed. Equal value lengths:
			// a value served from the wrong cached block would pass every
			// length check.
			n := 2 + g.r.IntN(3)
			if n > len(g.pfx) {
				n = len(g.pfx)
			}
			start := g.r.IntN(len(g.pfx) - n + 1)
			vlen := pick(&g.r, []int{40, 120, 240})
			b := DBOp{K: "batch", Mode: "direct"}
			var keys []string
			for _, p := range g.pfx[start : start+n] {
				for _, sf := range g.sfx[1:] {
					v, _ := g.val()
					b.Sub = append(b.Sub, DBOp{K: "set", Key: p + sf, Val: v, VLen: vlen})
					keys = append(keys, p+sf)
				}
			}
			g.add(b)
			g.add(DBOp{K: "flush"})
			g.add(DBOp{K: "reopen"})
			g.snaps, g.iters, batches = nil, nil, nil
			id := g.newID()
			g.add(DBOp{K: "iter", ID: id, IO: &IterOpts{}})
			g.add(DBOp{K: "iterop", ID: id, Mode: "seekge", Key: g.pfx[start]})
			for j := g.r.IntN(3); j > 0; j-- {
				g.add(DBOp{K: "iterop", ID: id, Mode: "next"})
			}
			g.add(DBOp{K: "armfault", Mode: "table-read", N: g.r.IntN(3)})
			for j := 1 + g.r.IntN(3); j > 0; j-- {
				g.add(DBOp{K: "iterop", ID: id, Mode: "next"})
			}
			for j := 2 + g.r.IntN(3); j > 0; j-- {
				if g.r.IntN(2) == 0 {
					g.add(DBOp{K: "iterop", ID: id, Mode: "seekge", Key: pick(&g.r, keys)})
				} else {
					g.add(DBOp{K: "iterop", ID: id, Mode: pick(&g.r, []string{"next", "prev"})})
				}
			}
			g.add(DBOp{K: "iterclose", ID: id})
			continue
		}
		switch name {
		case "write":
			g.add(g.writeOp(w.rangeKeys))
		case "ingest":
			g.add(g.ingestOp(w.rangeKeys, false))
		case "ingestexcise":
			g.add(g.ingestOp(w.rangeKeys, true))
		case "extingest":
			// an external (remote-backed) table with one key per prefix, all
			// stored with old suffixes, surfaced - in most cases - under a
			// newer synthetic suffix
			n := 2 + g.r.IntN(5)
			if n > len(g.pfx) {
				n = len(g.pfx)
			}
			start := g.r.IntN(len(g.pfx) - n + 1)
			o := DBOp{K: "extingest", Key: g.pfx[start], End: g.pfx[start+n-1] + "zz"}
			if g.r.IntN(4) != 0 {
				o.Suf = fmt.Sprintf("@%d", 12+g.r.IntN(20))
			}
			for _, p := range g.pfx[start : start+n] {
				if g.r.IntN(4) == 0 {
					continue
				}
				tag, vl := g.val()
				o.Sub = append(o.Sub, DBOp{K: "set", Key: p + fmt.Sprintf("@%d", 1+g.r.IntN(6)), Val: tag, VLen: 8 + vl%300})
			}
			if len(o.Sub) > 0 {
				g.add(o)
				if w.masking && g.r.IntN(2) == 0 && len(g.iters) < 4 {
					// a range key over the ingested span whose suffix lies between
					// the stored and the surfaced suffixes, and a masking iterator
					// (with and without the block-property filter) walked across it
					rk := DBOp{K: "rkset", Key: o.Key, End: o.End, Suf: fmt.Sprintf("@%d", 7+g.r.IntN(5))}
					rk.Val, rk.VLen = g.val()
					rk.VLen = 8
					g.add(DBOp{K: "batch", Mode: "direct", Sub: []DBOp{rk}})
					id := g.newID()
					g.add(DBOp{K: "iter", ID: id, IO: &IterOpts{KeyTypes: 2, Mask: "@11", MaskFilt: g.r.IntN(4) != 0}})
					g.iters = append(g.iters, id)
					g.add(DBOp{K: "iterop", ID: id, Mode: "first"})
					for j := 4 + g.r.IntN(10); j > 0; j-- {
						g.add(DBOp{K: "iterop", ID: id, Mode: "next"})
					}
					for j := g.r.IntN(6); j > 0; j-- {
						g.add(DBOp{K: "iterop", ID: id, Mode: "prev"})
					}
				}
			}
		case "excise":
			a, b := g.prefixSpan()
			g.add(DBOp{K: "excise", Key: a, End: b})
			if g.r.IntN(4) == 0 {
				// while that excise may still sit in the flushable queue: an
				// ingestion of a table whose largest key is exactly the start
				// of the excised span (bounds that touch without overlapping)
				tab := DBOp{K: "table"}
				for _, p := range g.pfx {
					if kvmodel.Compare(p, a) < 0 && g.r.IntN(3) == 0 {
						tag, vl := g.val()
						tab.Sub = append(tab.Sub, DBOp{K: "set", Key: p, Val: tag, VLen: vl % 200})
					}
				}
				tag, vl := g.val()
				tab.Sub = append(tab.Sub, DBOp{K: "set", Key: a, Val: tag, VLen: vl % 200})
				g.add(DBOp{K: "ingest", Sub: []DBOp{tab}})
			}
		case "flush":
			if g.r.IntN(3) == 0 {
				g.add(DBOp{K: "aflush"})
			} else {
				g.add(DBOp{K: "flush"})
			}
		case "compact":
			a, b := g.span()
			g.add(DBOp{K: "compact", Key: a, End: b, Flag: g.r.IntN(2) == 0})
		case "scan":
			g.add(DBOp{K: "scan"})
		case "reopen":
			g.add(DBOp{K: "reopen"})
			g.snaps, g.iters, batches = nil, nil, nil
		case "crash":
			if ncrash >= 3 {
				continue
			}
			ncrash++
			if g.r.IntN(2) == 0 {
				g.add(DBOp{K: "crashnow", Surv: g.survival()})
			} else {
				g.add(DBOp{K: "crashat", N: g.r.IntN(40), Surv: g.survival()})
			}
			g.snaps, g.iters, batches = nil, nil, nil
		case "wait":
			g.add(DBOp{K: "wait", N: 1 + g.r.IntN(2000)})
		case "ratchet":
			g.add(DBOp{K: "ratchet", N: g.r.IntN(64)})
		case "metrics":
			g.add(DBOp{K: "metrics"})
		case "checkpoint":
			o := DBOp{K: "checkpoint", Flag: g.r.IntN(2) == 0, ID: g.newID()}
			if g.r.IntN(3) == 0 {
				o.Key, o.End = g.prefixSpan()
			}
			g.add(o)
		case "scaninternal":
			a, b := g.prefixSpan()
			o := DBOp{K: "scaninternal", Key: a, End: b}
			if len(g.snaps) > 0 && g.r.IntN(2) == 0 {
				// on a snapshot, often right after the memtable was rotated
				o.Ref = pick(&g.r, g.snaps)
				if g.r.IntN(2) == 0 {
					g.add(DBOp{K: "aflush"})
				}
			}
			g.add(o)
		case "efos":
			id := g.newID()
			o := DBOp{K: "efos", ID: id}
			n := 1 + g.r.IntN(3)
			for j := 0; j < n; j++ {
				a, b := g.prefixSpan()
				o.Sub = append(o.Sub, DBOp{Key: a, End: b})
			}
			g.add(o)
			g.snaps = append(g.snaps, id)
			if g.r.IntN(4) == 0 {
				// close (or read) the snapshot while the flush that would make
				// it file-only is running
				for j := g.r.IntN(3); j > 0; j-- {
					g.add(g.writeOp(w.rangeKeys))
				}
				g.add(DBOp{K: "aflush"})
				// a varying amount of cheap work, so that the close lands at
				// different stages of the flush (its table write, its version
				// edit, the transition step under DB.mu)
				for j := g.r.IntN(10); j > 0; j-- {
					g.add(DBOp{K: "snapget", ID: id, Key: g.key()})
				}
				if g.r.IntN(3) == 0 {
					g.add(DBOp{K: "snapscan", ID: id, IO: g.iterOpts(false, false)})
				}
				g.add(DBOp{K: "snapclose", ID: id})
				g.snaps = removeInt(g.snaps, id)
			}
		case "snap":
			closeP := 4
			if w.longLived {
				closeP = 10
			}
			switch {
			case len(g.snaps) == 0 || (len(g.snaps) < 5 && g.r.IntN(3) == 0):
				id := g.newID()
				g.add(DBOp{K: "snap", ID: id})
				g.snaps = append(g.snaps, id)
				if g.r.IntN(5) == 0 && !g.disabled["delrange"] {
					// the very next commit is a wide range deletion (its sequence
					// number equals the snapshot's), flushed, with time for
					// table stats and a delete-only compaction; then the
					// snapshot is read again
					a, b := g.span()
					g.add(DBOp{K: "batch", Mode: "direct", Sub: []DBOp{{K: "delrange", Key: a, End: b}}})
					g.add(DBOp{K: "flush"})
					g.add(DBOp{K: "wait", N: 1 + g.r.IntN(3000)})
					g.add(DBOp{K: "snapscan", ID: id, IO: &IterOpts{}})
				}
			case g.r.IntN(closeP) == 0:
				id := pick(&g.r, g.snaps)
				g.add(DBOp{K: "snapclose", ID: id})
				g.snaps = removeInt(g.snaps, id)
			case g.r.IntN(3) == 0:
				g.add(DBOp{K: "snapscan", ID: pick(&g.r, g.snaps), IO: g.iterOpts(false, false)})
			case g.r.IntN(3) == 0 && len(g.iters) < 4:
				id := g.newID()
				g.add(DBOp{K: "iter", ID: id, Ref: pick(&g.r, g.snaps), IO: g.iterOpts(w.rangeKeys, w.masking)})
				g.iters = append(g.iters, id)
			case g.r.IntN(4) == 0:
				g.add(DBOp{K: "efoswait", ID: pick(&g.r, g.snaps)})
			default:
				for j := 0; j < 3; j++ {
					g.add(DBOp{K: "snapget", ID: pick(&g.r, g.snaps), Key: g.key()})
				}
			}
		case "iter":
			closeP := 6
			if w.longLived {
				closeP = 25
			}
			switch {
			case len(g.iters) == 0 || (len(g.iters) < 4 && g.r.IntN(4) == 0):
				id := g.newID()
				g.add(DBOp{K: "iter", ID: id, IO: g.iterOpts(w.rangeKeys, w.masking)})
				g.iters = append(g.iters, id)
				g.add(g.iterOp(id, w.rangeKeys, w.masking))
			case g.r.IntN(closeP) == 0:
				id := pick(&g.r, g.iters)
				g.add(DBOp{K: "iterclose", ID: id})
				g.iters = removeInt(g.iters, id)
			case g.r.IntN(10) == 0 && len(g.iters) < 4:
				id := g.newID()
				o := DBOp{K: "iterclone", ID: id, Ref: pick(&g.r, g.iters), Flag: g.r.IntN(2) == 0}
				if g.r.IntN(2) == 0 {
					o.IO = g.iterOpts(w.rangeKeys, w.masking)
				}
				g.add(o)
				g.iters = append(g.iters, id)
			case g.r.IntN(8) == 0:
				// a walk with monotonically moving, non-overlapping bounds (the
				// way a range scanner reuses one iterator), each step followed
				// by seeks - including prefix seeks of absent prefixes - at the
				// new bounds
				id := pick(&g.r, g.iters)
				bs := make([]string, 0, 8)
				for j := 0; j < 8; j++ {
					bs = append(bs, g.bound())
				}
				sort.Slice(bs, func(a, b int) bool { return kvmodel.Compare(bs[a], bs[b]) < 0 })
				if g.r.IntN(3) == 0 {
					for a, b := 0, len(bs)-1; a < b; a, b = a+1, b-1 {
						bs[a], bs[b] = bs[b], bs[a]
					}
				}
				if n := len(bs); g.r.IntN(2) == 0 && kvmodel.Compare(bs[n-2], bs[n-1]) != 0 {
					// first park the iterator far away, at the other end
					lo, hi := bs[n-2], bs[n-1]
					if kvmodel.Compare(lo, hi) > 0 {
						lo, hi = hi, lo
					}
					g.add(DBOp{K: "iterop", ID: id, Mode: "setbounds", Key: lo, End: hi})
					g.add(DBOp{K: "iterop", ID: id, Mode: "seekge", Key: lo})
					bs = bs[:n-2]
				}
				for j := 0; j+1 < len(bs); j++ {
					lo, hi := bs[j], bs[j+1]
					if kvmodel.Compare(lo, hi) > 0 {
						lo, hi = hi, lo
					}
					if lo == hi {
						continue
					}
					g.add(DBOp{K: "iterop", ID: id, Mode: "setbounds", Key: lo, End: hi})
					switch g.r.IntN(5) {
					case 0:
						// a prefix that no key has (a filter can exclude it)
						absent := lo
						if i := strings.IndexByte(absent, '@'); i >= 0 {
							absent = absent[:i]
						}
						g.add(DBOp{K: "iterop", ID: id, Mode: "seekprefixge", Key: absent + "x"})
					case 1:
						g.add(DBOp{K: "iterop", ID: id, Mode: "seekprefixge", Key: lo})
					case 2:
						g.add(DBOp{K: "iterop", ID: id, Mode: "seeklt", Key: hi})
					case 3:
						g.add(DBOp{K: "iterop", ID: id, Mode: "seekge", Key: lo})
						g.add(DBOp{K: "iterop", ID: id, Mode: "next"})
					default:
						g.add(DBOp{K: "iterop", ID: id, Mode: "seekge", Key: lo})
					}
				}
			default:
				id := pick(&g.r, g.iters)
				n := 1 + g.r.IntN(iterOps)
				for j := 0; j < n; j++ {
					g.add(g.iterOp(id, w.rangeKeys, w.masking))
				}
			}
		case "ibatch":
			switch {
			case len(batches) == 0 || (len(batches) < 2 && g.r.IntN(5) == 0):
				id := g.newID()
				g.add(DBOp{K: "ibatch", ID: id})
				batches = append(batches, id)
			case g.r.IntN(10) == 0:
				id := pick(&g.r, batches)
				k := "ibatchcommit"
				if g.r.IntN(3) == 0 {
					k = "ibatchclose"
				}
				g.add(DBOp{K: k, ID: id, Sync: g.r.IntN(3) == 0})
				batches = removeInt(batches, id)
			case g.r.IntN(7) == 0 && len(g.iters) < 4:
				id := g.newID()
				g.add(DBOp{K: "ibatchiter", ID: pick(&g.r, batches), Ref: id, IO: g.iterOpts(w.rangeKeys, w.masking)})
				g.iters = append(g.iters, id)
			case g.r.IntN(3) == 0:
				g.add(DBOp{K: "ibatchget", ID: pick(&g.r, batches), Key: g.key()})
			default:
				var so DBOp
				if w.rangeKeys && g.r.IntN(4) == 0 {
					so = g.rangeKeyOp()
				} else {
					so = g.pointOp(false)
				}
				g.add(DBOp{K: "ibatchop", ID: pick(&g.r, batches), Sub: []DBOp{so}})
			}
		}
	}
	g.add(DBOp{K: "scan"})
}

var _ = kvmodel.Compare
