package engine

import (
	"context"
	"fmt"
	"os"
	"sort"
	"strings"

	"github.com/cockroachdb/pebble"
	"github.com/cockroachdb/pebble/objstorage"
	"github.com/cockroachdb/pebble/sstable"
	"github.com/cockroachdb/pebble/verifsim/kvmodel"
	"github.com/cockroachdb/pebble/verifsim/simfs"
	"github.com/cockroachdb/pebble/verifsim/simrt"
)

// ---- bit rot in table and blob files (C27) ----
//
// A history builds tables and blob files through real flushes, compactions and
// ingestions. The store is then closed and, for each of N variants, a copy of
// the disk gets one table or blob file damaged at rest (bit flip, byte,
// zeroed range, garbage range, swapped blocks, truncation, extension). A side
// incarnation opens real Pebble on the damaged copy with an empty cache and
// reads everything: every Get, every completed scan (forward, reverse, with
// range keys) must either report an error or equal the model. Background
// compactions of the side incarnation read the damaged files too.

const rotWaitKey = uintptr(0x2f00)

type rotVariant struct {
	file    string
	pattern string
	off, n  int
	seed    uint64
}

func (v rotVariant) String() string {
	return fmt.Sprintf("%s of %s at offset %d (len %d)", v.pattern, v.file, v.off, v.n)
}

var rotPatterns = []string{"bitflip", "bitflip", "bitflip", "byte", "byte", "zero", "garbage", "swap", "truncate", "extend", "dup"}

// damage applies the variant to a copy of the file's bytes.
func (v rotVariant) damage(data []byte) []byte {
	r := simrt.NewRng(v.seed, 99)
	if len(data) == 0 {
		return data
	}
	off := v.off % len(data)
	switch v.pattern {
	case "bitflip":
		data[off] ^= 1 << uint(r.IntN(8))
	case "byte":
		old := data[off]
		for data[off] == old {
			data[off] = byte(r.IntN(256))
		}
	case "zero":
		for i := off; i < off+v.n && i < len(data); i++ {
			data[i] = 0
		}
	case "garbage":
		for i := off; i < off+v.n && i < len(data); i++ {
			data[i] = byte(r.IntN(256))
		}
	case "swap":
		// swap two equally long, non-overlapping ranges
		n := v.n
		if n > len(data)/2 {
			n = len(data) / 2
		}
		if n == 0 {
			break
		}
		a := off % (len(data) - 2*n + 1)
		b := a + n + r.IntN(len(data)-a-2*n+1)
		for i := 0; i < n; i++ {
			data[a+i], data[b+i] = data[b+i], data[a+i]
		}
	case "truncate":
		data = data[:off]
	case "extend":
		for i := 0; i < 1+v.n; i++ {
			data = append(data, byte(r.IntN(256)))
		}
	case "dup":
		// a range overwritten by a copy of an earlier range (a misdirected write)
		n := v.n
		if off+n > len(data) {
			n = len(data) - off
		}
		if off > 0 && n > 0 {
			src := r.IntN(off)
			copy(data[off:off+n], append([]byte(nil), data[src:min(src+n, len(data))]...))
		}
	}
	return data
}

func (h *dbHarness) execRot(op *DBOp) {
	// everything into tables, then a clean shutdown
	if err := h.db.Flush(); err != nil {
		h.opErr("flush", err)
		return
	}
	h.checkScan(h.model.Len())
	if !h.closeDB() {
		return
	}
	var files []string
	for _, n := range h.disk.ListNoFault("db") {
		if c := simfs.ClassOf(n); c == simfs.ClsTable || c == simfs.ClsBlob {
			files = append(files, "db/"+n)
		}
	}
	sort.Strings(files)
	if len(files) == 0 {
		h.count("rot.no_files", 1)
	}
	st := h.model.Latest()
	wantPts := st.Points()
	wantSpans := st.Spans()
	for i := 0; i < op.N && len(files) > 0; i++ {
		f := files[h.r.IntN(len(files))]
		data, err := h.disk.ReadFile(f)
		if err != nil || len(data) == 0 {
			continue
		}
		v := rotVariant{file: f, pattern: rotPatterns[h.r.IntN(len(rotPatterns))], seed: h.r.Next()}
		switch h.r.IntN(4) {
		case 0:
			// the tail of the file: footer, metaindex, properties, index
			v.off = len(data) - 1 - h.r.IntN(min(len(data), 160))
		default:
			v.off = h.r.IntN(len(data))
		}
		v.n = 1 + h.r.IntN(64)
		if h.r.IntN(4) == 0 {
			v.n = 1 + h.r.IntN(4096)
		}
		img := h.disk.CrashImage(simfs.Survival{Mode: "all"})
		before := string(data)
		if err := img.Corrupt(f, v.damage); err != nil {
			simrt.Fail("tooling:rot", err.Error())
		}
		after, _ := img.ReadFile(f)
		if string(after) == before {
			h.count("rot.noop_damage", 1)
			continue
		}
		h.runRotVariant(img, v, st, wantPts, wantSpans, i)
	}
	// the undamaged store still opens and reads back the model
	db, err := pebble.Open("db", h.makeOptions())
	if err != nil {
		h.opErr("reopen", err)
		return
	}
	h.db = db
	h.checkScan(h.model.Len())
}

// runRotVariant reads a damaged copy in a side incarnation and waits for it.
func (h *dbHarness) runRotVariant(img *simfs.Disk, v rotVariant, st *kvmodel.State, wantPts []kvmodel.KV, wantSpans []kvmodel.Span, idx int) {
	inc := &simrt.Inc{ID: 5000 + idx}
	done := false
	h.rotInc = inc
	simrt.GoIn("rot", inc, 0, func() {
		defer func() { done = true; simrt.Wake(rotWaitKey) }()
		h.readDamaged(img, v, st, wantPts, wantSpans, idx)
	})
	for !done && !inc.Dead {
		simrt.Block(rotWaitKey)
	}
	if inc.Dead && !done {
		// Fatalf or a panic inside Pebble on the damaged copy: loud, not silent
		h.count("rot.detected.failstop", 1)
	}
	h.rotInc = nil
	h.count("rot.variants", 1)
	h.count("rot.pattern."+v.pattern, 1)
	if simfs.ClassOf(v.file) == simfs.ClsBlob {
		h.count("rot.blob_file", 1)
	} else {
		h.count("rot.table_file", 1)
	}
	simrt.Progress()
}

func (h *dbHarness) readDamaged(img *simfs.Disk, v rotVariant, st *kvmodel.State, wantPts []kvmodel.KV, wantSpans []kvmodel.Span, idx int) {
	opts := h.makeOptionsOn(img)
	opts.EnsureDefaults()
	// an own, cold cache: every block is read from the damaged file
	opts.Cache = nil
	// No automatic compactions on the damaged copy: a compaction that fails on
	// a damaged input is re-picked at once, for ever, and with it table-stats
	// jobs - a retry storm that never lets the simulated clock advance. The
	// damaged file is fed to a manual compaction below instead, which returns
	// its error.
	opts.DisableAutomaticCompactions = true
	opts.DisableTableStats = true
	if os.Getenv("VERIF_ROT_STATS") != "" && idx%2 == 1 {
		opts.DisableTableStats = false
	}
	db, err := pebble.Open("db", opts)
	if err != nil {
		h.count("rot.detected.open", 1)
		return
	}
	detected := false
	bad := func(what, d string) {
		if os.Getenv("VERIF_DEBUG") != "" {
			h.debugLayout(v)
		}
		Violation("rot", "after %s: %s returned no error and a result that differs from the original: %s", v, what, d)
	}
	// point lookups of every key of the key space
	for _, p := range h.pfx {
		for _, s := range h.sfx {
			k := p + s
			val, closer, err := db.Get([]byte(k))
			want, ok := st.Get(k)
			switch {
			case err == pebble.ErrNotFound:
				if ok {
					bad(fmt.Sprintf("Get(%q)", k), "not found; original value "+shortv(want))
				}
			case err != nil:
				detected = true
				h.count("rot.detected.get", 1)
				if os.Getenv("VERIF_DEBUG") != "" {
					fmt.Fprintf(os.Stderr, "rot %d: Get(%s): %v\n", idx, k, err)
				}
			default:
				got := string(val)
				closer.Close()
				if !ok || got != want {
					bad(fmt.Sprintf("Get(%q)", k), fmt.Sprintf("got %q, original %q (present=%v)", shortv(got), shortv(want), ok))
				}
			}
			h.count("check.rot_get", 1)
		}
	}
	// forward and reverse scans of the points, lazily fetched values included
	for dir := 0; dir < 2; dir++ {
		it, err := db.NewIter(&pebble.IterOptions{KeyTypes: pebble.IterKeyTypePointsOnly})
		if err != nil {
			detected = true
			continue
		}
		var got []kvmodel.KV
		var serr error
		valueErrs := 0
		step := it.Next
		ok := false
		if dir == 0 {
			ok = it.First()
		} else {
			ok = it.Last()
			step = it.Prev
		}
		wantVal := map[string]string{}
		for _, kv := range wantPts {
			wantVal[kv.K] = kv.V
		}
		for ; ok; ok = step() {
			val, verr := it.ValueAndErr()
			if verr != nil {
				// The failed fetch of one value does not end the iteration: a
				// second attempt and the keys that follow are ordinary reads,
				// and what they return without an error must be right.
				valueErrs++
				val, verr = it.ValueAndErr()
				if verr != nil {
					got = append(got, kvmodel.KV{K: string(it.Key()), V: "\x00<value unreadable>"})
					continue
				}
				if w, present := wantVal[string(it.Key())]; !present || w != string(val) {
					bad("a second ValueAndErr after a failed one", fmt.Sprintf("key %q: got %q, original %q", it.Key(), shortv(string(val)), shortv(w)))
				}
			}
			got = append(got, kvmodel.KV{K: string(it.Key()), V: string(val)})
		}
		if serr == nil {
			serr = it.Error()
		}
		if cerr := it.Close(); serr == nil {
			serr = cerr
		}
		if serr != nil {
			if os.Getenv("VERIF_DEBUG") != "" {
				fmt.Fprintf(os.Stderr, "rot %d: scan dir %d: %v\n", idx, dir, serr)
			}
			detected = true
			h.count("rot.detected.scan", 1)
			continue
		}
		if valueErrs > 0 {
			detected = true
			h.count("rot.detected.value", int64(valueErrs))
			// every value that was returned must be the original one; the
			// unreadable ones are replaced by the original for the comparison
			// of the key sequence
			for i := range got {
				if got[i].V == "\x00<value unreadable>" {
					if w, present := wantVal[got[i].K]; present {
						got[i].V = w
					}
				}
			}
		}
		if dir == 1 {
			for i, j := 0, len(got)-1; i < j; i, j = i+1, j-1 {
				got[i], got[j] = got[j], got[i]
			}
		}
		if d := kvmodel.DiffPoints(wantPts, got); d != "" {
			bad([]string{"a forward scan", "a reverse scan"}[dir], d)
		}
		h.count("check.rot_scan", 1)
	}
	// range keys
	if _, spans, err := readAll(db); err != nil {
		detected = true
		h.count("rot.detected.rangescan", 1)
	} else if d := diffSpans(wantSpans, spans); d != "" {
		bad("a range-key scan", d)
	}
	// let a compaction chew on the damaged file, then read once more
	if err := db.Compact(h.ctxBg(), []byte("a"), []byte("zzzz"), false); err != nil {
		detected = true
		h.count("rot.detected.compact", 1)
		if os.Getenv("VERIF_DEBUG") != "" {
			fmt.Fprintf(os.Stderr, "rot %d: compact: %v\n", idx, err)
		}
	}
	pts, spans, err := readAll(db)
	if err != nil {
		detected = true
		h.count("rot.detected.scan_after_compact", 1)
	} else if d := kvmodel.DiffPoints(wantPts, pts); d != "" {
		bad("a scan after compactions had the chance to read the damaged file", d)
	} else if d := diffSpans(wantSpans, spans); d != "" {
		bad("a range-key scan after compactions had the chance to read the damaged file", d)
	}
	if cerr := db.Close(); cerr != nil {
		detected = true
	}
	if detected {
		h.count("rot.detected", 1)
	} else {
		// e.g. padding, an unused region, a block no read needed, or a file
		// that a delete-only path never opens
		h.count("rot.undetected_but_results_identical", 1)
	}
}

var _ = strings.HasPrefix

// debugLayout prints the block layout of the (undamaged) file of a variant.
func (h *dbHarness) debugLayout(v rotVariant) {
	f, err := h.disk.Open(v.file)
	if err != nil {
		fmt.Fprintln(os.Stderr, "debugLayout:", err)
		return
	}
	rd, err := objstorage.NewSimpleReadable(f)
	if err != nil {
		return
	}
	r, err := sstable.NewReader(context.Background(), rd, h.opts.MakeReaderOptions())
	if err != nil {
		fmt.Fprintln(os.Stderr, "debugLayout:", err)
		return
	}
	defer r.Close()
	l, err := r.Layout()
	if err != nil {
		fmt.Fprintln(os.Stderr, "debugLayout:", err)
		return
	}
	fmt.Fprintf(os.Stderr, "variant %s\nlayout of %s: format=%v data=%v index=%v topindex=%v filter=%v rangedel=%v rangekey=%v valueblocks=%v valueindex=%v props=%v metaindex=%v footer=%v\n",
		v, v.file, l.Format, l.Data, l.Index, l.TopIndex, l.Filter, l.RangeDel, l.RangeKey, l.ValueBlock, l.ValueIndex, l.Properties, l.MetaIndex, l.Footer)
}
