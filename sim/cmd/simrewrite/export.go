package main

// exportFile is written into the root package of the scratch copy (rule R12):
// a handful of read-only accessors used by oracles. Build tag verifsim.
const exportFile = `//go:build verifsim

package pebble

import (
	"fmt"
	"sync/atomic"
	"unsafe"

	"github.com/cockroachdb/pebble/internal/manifest"
)

// VerifsimSeqNum returns the sequence number assigned to a committed batch,
// also for large batches whose data was handed to a flushable batch.
func (b *Batch) VerifsimSeqNum() uint64 {
	if b.flushable != nil {
		return uint64(b.flushable.seqNum)
	}
	return uint64(b.SeqNum())
}

// VerifsimVisibleSeqNum returns the published visible sequence number.
func (d *DB) VerifsimVisibleSeqNum() uint64 { return uint64(d.mu.versions.visibleSeqNum.Load()) }

// VerifsimVisibleSeqNumRaw is VerifsimVisibleSeqNum without passing through
// any instrumented code (no scheduling point): usable by monitors.
func (d *DB) VerifsimVisibleSeqNumRaw() uint64 {
	return atomic.LoadUint64((*uint64)(unsafe.Pointer(&d.mu.versions.visibleSeqNum)))
}

// VerifsimLogSeqNum returns the next sequence number to be allocated.
func (d *DB) VerifsimLogSeqNum() uint64 { return uint64(d.mu.versions.logSeqNum.Load()) }

func verifsimVersionFiles(v *manifest.Version, out map[uint64]bool) {
	if v == nil {
		return
	}
	for l := range v.Levels {
		for f := range v.Levels[l].All() {
			out[uint64(f.TableBacking.DiskFileNum)] = true
		}
	}
	for bf := range v.BlobFiles.All() {
		out[uint64(bf.Physical.FileNum)] = true
	}
}

// VerifsimPinnedFiles returns the disk file numbers of the tables and blob
// files of the version this iterator reads from.
func (i *Iterator) VerifsimPinnedFiles() map[uint64]bool {
	out := map[uint64]bool{}
	if i.readState != nil {
		verifsimVersionFiles(i.readState.current, out)
	}
	if i.version != nil {
		verifsimVersionFiles(i.version, out)
	}
	return out
}

// VerifsimPinnedFiles returns the disk file numbers of the version a
// file-only snapshot has pinned (empty before the transition). It reads the
// field without the snapshot's mutex: callable from monitors that run while a
// transition holds it (the value is only used by the single-baton simulator).
func (es *EventuallyFileOnlySnapshot) VerifsimPinnedFiles() map[uint64]bool {
	out := map[uint64]bool{}
	verifsimVersionFiles(es.mu.vers, out)
	return out
}

func verifsimDescribeVersion(v *manifest.Version) string {
	if v == nil {
		return "<nil>"
	}
	s := ""
	for l := range v.Levels {
		for f := range v.Levels[l].All() {
			s += fmt.Sprintf(" L%d:%s(backing %s virtual=%v)", l, f.TableNum, f.TableBacking.DiskFileNum, f.Virtual)
		}
	}
	return s
}

// VerifsimDescribe renders the version an iterator pins and the current one (diagnostics).
func (i *Iterator) VerifsimDescribe(d *DB) string {
	s := "iterator version:"
	if i.readState != nil {
		s += verifsimDescribeVersion(i.readState.current) + fmt.Sprintf(" [readState refs=%d]", i.readState.refcnt.Load())
	}
	if i.version != nil {
		s += " pinned:" + verifsimDescribeVersion(i.version)
	}
	d.readState.RLock()
	s += "; current version:" + verifsimDescribeVersion(d.readState.val.current)
	d.readState.RUnlock()
	return s
}

// VerifsimCurrentFiles returns the disk file numbers of the current version.
func (d *DB) VerifsimCurrentFiles() map[uint64]bool {
	out := map[uint64]bool{}
	// No ref/unref here: the caller may be the file deleter itself, and
	// dropping the last reference of a version from there would re-enter the
	// obsolete-file bookkeeping.
	d.readState.RLock()
	verifsimVersionFiles(d.readState.val.current, out)
	d.readState.RUnlock()
	return out
}

// VerifsimMinUnflushedLogNumRaw is VerifsimMinUnflushedLogNum without taking
// DB.mu (single-baton simulator only; the caller may already be under DB.mu).
func (d *DB) VerifsimMinUnflushedLogNumRaw() uint64 {
	return uint64(d.mu.versions.minUnflushedLogNum)
}

// VerifsimMinUnflushedLogNum returns the smallest WAL number still needed for recovery.
func (d *DB) VerifsimMinUnflushedLogNum() uint64 {
	d.mu.Lock()
	defer d.mu.Unlock()
	return uint64(d.mu.versions.minUnflushedLogNum)
}
`
