// simrewrite rewrites a scratch copy of Pebble so that every blocking,
// scheduling-relevant, random or clock-related operation goes through
// simrt / simsync / simrand (rules R1..R11 of DESIGN.md section 2.2).
//
// Exit status: 0 ok, 2 anything the rewriter does not understand.
package main

import (
	"bytes"
	"flag"
	"fmt"
	"go/ast"
	"go/format"
	"go/token"
	"go/types"
	"os"
	"path/filepath"
	"sort"
	"strconv"
	"strings"

	"golang.org/x/tools/go/ast/astutil"
	"golang.org/x/tools/go/packages"
)

const simrtPath = "github.com/cockroachdb/pebble/verifsim/simrt"
const simsyncPath = "github.com/cockroachdb/pebble/verifsim/simsync"
const simrandPath = "github.com/cockroachdb/pebble/verifsim/simrand"

var stats = map[string]int{}
var problems []string

type rw struct {
	skip    map[ast.Stmt]bool
	handled map[ast.Node]bool
	visited map[ast.Node]bool
	pkg     *packages.Package
	file    *ast.File
	base    string
	n       int
	useSim  bool
	changed bool
	atomics bool
}

func (r *rw) fresh(p string) *ast.Ident {
	r.n++
	return ast.NewIdent(fmt.Sprintf("_sim%s%d", p, r.n))
}

func simCall(fn string, args ...ast.Expr) *ast.CallExpr {
	return &ast.CallExpr{Fun: &ast.SelectorExpr{X: ast.NewIdent("simrt"), Sel: ast.NewIdent(fn)}, Args: args}
}

func isRecv(e ast.Expr) bool {
	e = ast.Unparen(e)
	u, ok := e.(*ast.UnaryExpr)
	return ok && u.Op == token.ARROW
}

func (r *rw) isChanStmt(s ast.Stmt) bool {
	switch x := s.(type) {
	case *ast.SendStmt:
		return true
	case *ast.ExprStmt:
		return isRecv(x.X)
	case *ast.AssignStmt:
		return len(x.Rhs) == 1 && isRecv(x.Rhs[0])
	case *ast.SelectStmt:
		return true
	}
	return false
}

func (r *rw) isRangeChan(s ast.Stmt) bool {
	rs, ok := s.(*ast.RangeStmt)
	if !ok {
		return false
	}
	t := r.pkg.TypesInfo.TypeOf(rs.X)
	if t == nil {
		return false
	}
	_, ok = t.Underlying().(*types.Chan)
	return ok
}

// initRecv reports whether an if/switch statement has a receive in its init
// clause; such statements are hoisted into an enclosing block.
func initRecv(s ast.Stmt) (ast.Stmt, bool) {
	var init ast.Stmt
	switch x := s.(type) {
	case *ast.IfStmt:
		init = x.Init
	case *ast.SwitchStmt:
		init = x.Init
	}
	if init == nil {
		return nil, false
	}
	switch x := init.(type) {
	case *ast.AssignStmt:
		if len(x.Rhs) == 1 && isRecv(x.Rhs[0]) {
			return init, true
		}
	case *ast.ExprStmt:
		if isRecv(x.X) {
			return init, true
		}
	}
	return nil, false
}

// isAtomicCall reports whether call is a sync/atomic operation.
func (r *rw) isAtomicCall(call *ast.CallExpr) bool {
	sel, ok := call.Fun.(*ast.SelectorExpr)
	if !ok {
		return false
	}
	if id, ok := sel.X.(*ast.Ident); ok {
		if obj, ok := r.pkg.TypesInfo.Uses[id].(*types.PkgName); ok {
			return obj.Imported().Path() == "sync/atomic"
		}
	}
	if s := r.pkg.TypesInfo.Selections[sel]; s != nil && s.Kind() == types.MethodVal {
		if f, ok := s.Obj().(*types.Func); ok && f.Pkg() != nil && f.Pkg().Path() == "sync/atomic" {
			return true
		}
	}
	return false
}

// stmtHasAtomic looks for an atomic call in the parts of a statement that are
// evaluated when the statement starts (not in nested blocks or closures).
func (r *rw) stmtHasAtomic(s ast.Stmt) bool {
	found := false
	var visit func(n ast.Node) bool
	visit = func(n ast.Node) bool {
		if found {
			return false
		}
		switch x := n.(type) {
		case *ast.BlockStmt, *ast.FuncLit:
			return false
		case *ast.CallExpr:
			if r.isAtomicCall(x) {
				found = true
				return false
			}
		}
		return true
	}
	switch x := s.(type) {
	case *ast.ExprStmt, *ast.AssignStmt, *ast.ReturnStmt, *ast.IncDecStmt, *ast.SendStmt, *ast.DeclStmt:
		ast.Inspect(s, visit)
	case *ast.IfStmt:
		if x.Init != nil {
			ast.Inspect(x.Init, visit)
		}
		ast.Inspect(x.Cond, visit)
	case *ast.SwitchStmt:
		if x.Init != nil {
			ast.Inspect(x.Init, visit)
		}
		if x.Tag != nil {
			ast.Inspect(x.Tag, visit)
		}
	case *ast.ForStmt:
		if x.Init != nil {
			ast.Inspect(x.Init, visit)
		}
		if x.Cond != nil {
			ast.Inspect(x.Cond, visit)
		}
	}
	return found
}

func (r *rw) kindLit(pos token.Pos) ast.Expr {
	p := r.pkg.Fset.Position(pos)
	return &ast.BasicLit{Kind: token.STRING, Value: strconv.Quote(fmt.Sprintf("%s:%d", r.base, p.Line))}
}

// detSelect implements R4: poll the cases in source order with nested
// non-blocking selects before blocking in the original select.
func (r *rw) detSelect(sel *ast.SelectStmt) ast.Stmt {
	var comm []*ast.CommClause
	hasDefault := false
	for _, c := range sel.Body.List {
		cc := c.(*ast.CommClause)
		if cc.Comm == nil {
			hasDefault = true
		} else {
			comm = append(comm, cc)
		}
	}
	if len(comm) < 2 {
		return sel
	}
	_ = hasDefault
	stats["detselect"]++
	var cur ast.Stmt = sel
	for i := len(comm) - 1; i >= 0; i-- {
		cc := comm[i]
		c1 := &ast.CommClause{Comm: cc.Comm, Body: cc.Body}
		c2 := &ast.CommClause{Comm: nil, Body: []ast.Stmt{cur}}
		blk := &ast.BlockStmt{List: []ast.Stmt{c1, c2}}
		r.visited[c1], r.visited[c2], r.visited[blk] = true, true, true
		cur = &ast.SelectStmt{Body: blk}
	}
	return cur
}

func (r *rw) rewriteList(list []ast.Stmt) []ast.Stmt {
	var out []ast.Stmt
	for _, s := range list {
		inner := s
		var label *ast.LabeledStmt
		if l, ok := s.(*ast.LabeledStmt); ok {
			label = l
			inner = l.Stmt
		}
		if r.atomics && !r.skip[inner] && r.stmtHasAtomic(inner) {
			stats["atomicyield"]++
			r.useSim, r.changed = true, true
			y := &ast.ExprStmt{X: simCall("AtomicYield")}
			r.skip[y] = true
			out = append(out, y)
		}
		switch {
		case r.skip[inner]:
			out = append(out, s)
		case r.isChanStmt(inner):
			r.handled[inner] = true
			tok := r.fresh("tok")
			before := &ast.AssignStmt{Lhs: []ast.Expr{tok}, Tok: token.DEFINE, Rhs: []ast.Expr{simCall("BeforeChanOp")}}
			after := &ast.ExprStmt{X: simCall("AfterChanOp", tok)}
			r.useSim, r.changed = true, true
			if sel, ok := inner.(*ast.SelectStmt); ok {
				stats["select"]++
				for _, c := range sel.Body.List {
					cc := c.(*ast.CommClause)
					// Rewrite the body now, exactly once: detSelect shares it
					// between several clauses.
					body := r.rewriteList(cc.Body)
					cc.Body = append([]ast.Stmt{&ast.ExprStmt{X: simCall("AfterChanOp", tok)}}, body...)
					r.visited[cc] = true
				}
				det := r.detSelect(sel)
				if label != nil {
					// keep the label on the (possibly nested) select so that
					// `break L` still leaves the whole construct.
					label.Stmt = det
					out = append(out, before, label)
				} else {
					out = append(out, before, det)
				}
			} else {
				stats["chanop"]++
				out = append(out, before, s, after)
			}
		case r.isRangeChan(inner):
			stats["rangechan"]++
			rs := inner.(*ast.RangeStmt)
			r.useSim, r.changed = true, true
			ch := r.fresh("ch")
			tok := r.fresh("tok")
			okv := r.fresh("ok")
			val := r.fresh("v")
			body := []ast.Stmt{
				&ast.AssignStmt{Lhs: []ast.Expr{tok}, Tok: token.DEFINE, Rhs: []ast.Expr{simCall("BeforeChanOp")}},
				&ast.AssignStmt{Lhs: []ast.Expr{val, okv}, Tok: token.DEFINE, Rhs: []ast.Expr{&ast.UnaryExpr{Op: token.ARROW, X: ch}}},
				&ast.ExprStmt{X: simCall("AfterChanOp", tok)},
				&ast.IfStmt{Cond: &ast.UnaryExpr{Op: token.NOT, X: okv}, Body: &ast.BlockStmt{List: []ast.Stmt{&ast.BranchStmt{Tok: token.BREAK}}}},
			}
			if rs.Key != nil {
				body = append(body, &ast.AssignStmt{Lhs: []ast.Expr{rs.Key}, Tok: rs.Tok, Rhs: []ast.Expr{val}})
			} else {
				body = append(body, &ast.AssignStmt{Lhs: []ast.Expr{ast.NewIdent("_")}, Tok: token.ASSIGN, Rhs: []ast.Expr{val}})
			}
			for _, b := range body {
				r.skip[b] = true
			}
			body = append(body, rs.Body.List...)
			fs := &ast.ForStmt{Body: &ast.BlockStmt{List: body}}
			hoist := &ast.AssignStmt{Lhs: []ast.Expr{ch}, Tok: token.DEFINE, Rhs: []ast.Expr{rs.X}}
			r.skip[hoist] = true
			out = append(out, hoist)
			if label != nil {
				label.Stmt = fs
				out = append(out, label)
			} else {
				out = append(out, fs)
			}
		default:
			if init, ok := initRecv(inner); ok && label == nil {
				// if v, ok := <-ch; cond {..}  =>  { tok; v, ok := <-ch; after; if cond {..} }
				stats["initrecv"]++
				r.useSim, r.changed = true, true
				r.handled[init] = true
				tok := r.fresh("tok")
				before := &ast.AssignStmt{Lhs: []ast.Expr{tok}, Tok: token.DEFINE, Rhs: []ast.Expr{simCall("BeforeChanOp")}}
				after := &ast.ExprStmt{X: simCall("AfterChanOp", tok)}
				switch x := inner.(type) {
				case *ast.IfStmt:
					x.Init = nil
				case *ast.SwitchStmt:
					x.Init = nil
				}
				r.skip[init] = true
				blk := &ast.BlockStmt{List: []ast.Stmt{before, init, after, inner}}
				r.skip[before], r.skip[after] = true, true
				out = append(out, blk)
				continue
			}
			if g, ok := inner.(*ast.GoStmt); ok {
				stats["go"]++
				r.useSim, r.changed = true, true
				t := r.fresh("task")
				spawn := &ast.AssignStmt{Lhs: []ast.Expr{t}, Tok: token.DEFINE, Rhs: []ast.Expr{simCall("Spawn", r.kindLit(g.Pos()))}}
				prologue := []ast.Stmt{
					&ast.ExprStmt{X: simCall("Start", t)},
					&ast.DeferStmt{Call: simCall("Exit", t)},
				}
				if lit, ok := g.Call.Fun.(*ast.FuncLit); ok {
					lit.Body.List = append(prologue, lit.Body.List...)
					out = append(out, spawn, s)
				} else {
					// go f(args) -> evaluate f's receiver and args now, wrap in a literal.
					var pre []ast.Stmt
					call := &ast.CallExpr{Fun: g.Call.Fun, Ellipsis: g.Call.Ellipsis}
					if sel, ok := g.Call.Fun.(*ast.SelectorExpr); ok {
						// method value or package function; bind method values.
						if _, isPkg := r.pkg.TypesInfo.Uses[identOf(sel.X)].(*types.PkgName); !isPkg {
							tmp := r.fresh("fn")
							pre = append(pre, &ast.AssignStmt{Lhs: []ast.Expr{tmp}, Tok: token.DEFINE, Rhs: []ast.Expr{g.Call.Fun}})
							call.Fun = tmp
						}
					}
					for _, a := range g.Call.Args {
						if id, ok := a.(*ast.Ident); ok && (id.Name == "nil" || id.Name == "true" || id.Name == "false") {
							call.Args = append(call.Args, a)
							continue
						}
						if _, ok := a.(*ast.BasicLit); ok {
							call.Args = append(call.Args, a)
							continue
						}
						tmp := r.fresh("arg")
						pre = append(pre, &ast.AssignStmt{Lhs: []ast.Expr{tmp}, Tok: token.DEFINE, Rhs: []ast.Expr{a}})
						call.Args = append(call.Args, tmp)
					}
					lit := &ast.FuncLit{Type: &ast.FuncType{Params: &ast.FieldList{}}, Body: &ast.BlockStmt{List: append(prologue, &ast.ExprStmt{X: call})}}
					g.Call = &ast.CallExpr{Fun: lit}
					out = append(out, spawn)
					out = append(out, pre...)
					out = append(out, s)
				}
			} else {
				out = append(out, s)
			}
		}
	}
	return out
}

func identOf(e ast.Expr) *ast.Ident {
	id, _ := e.(*ast.Ident)
	return id
}

func (r *rw) walk(n ast.Node) {
	ast.Inspect(n, func(n ast.Node) bool {
		switch n.(type) {
		case *ast.BlockStmt, *ast.CaseClause, *ast.CommClause:
			if r.visited[n] {
				return true
			}
			r.visited[n] = true
		}
		switch x := n.(type) {
		case *ast.BlockStmt:
			x.List = r.rewriteList(x.List)
		case *ast.CaseClause:
			x.Body = r.rewriteList(x.Body)
		case *ast.CommClause:
			x.Body = r.rewriteList(x.Body)
		case *ast.CallExpr:
			// R13: Pebble's invariants builds disable seek / bounds optimisations
			// "at random" by hashing the ADDRESS of the iterator
			// (testingDisableSeekOpt(key, uintptr(unsafe.Pointer(i)))): addresses
			// differ from process to process, so the same seed took different
			// paths. The address argument becomes a hash of the key and a
			// per-run salt (skipping an optimisation is always legal).
			if id, ok := x.Fun.(*ast.Ident); ok && len(x.Args) == 2 &&
				(id.Name == "testingDisableSeekOpt" || id.Name == "testingDisableBoundsOpt") {
				// The replacement must be a FUNCTION of the key (and of the run):
				// Pebble evaluates the predicate twice per seek (once for the
				// no-op shortcut, once for TrySeekUsingNext) and relies on both
				// evaluations agreeing.
				x.Args[1] = &ast.CallExpr{Fun: ast.NewIdent("uintptr"), Args: []ast.Expr{
					&ast.CallExpr{Fun: &ast.SelectorExpr{X: ast.NewIdent("simrt"), Sel: ast.NewIdent("DetKey")}, Args: []ast.Expr{x.Args[0]}}}}
				r.useSim, r.changed = true, true
				stats["detaddr"]++
			}
			if sel, ok := x.Fun.(*ast.SelectorExpr); ok {
				if id, ok := sel.X.(*ast.Ident); ok {
					if obj, ok := r.pkg.TypesInfo.Uses[id].(*types.PkgName); ok {
						repl := ""
						switch obj.Imported().Path() + "." + sel.Sel.Name {
						case "runtime.Gosched":
							repl = "SpinYield"
						case "runtime.GOMAXPROCS":
							repl = "Procs"
						case "time.Sleep":
							repl = "Sleep"
						case "time.AfterFunc":
							repl = "AfterFunc"
						}
						if repl != "" {
							x.Fun = &ast.SelectorExpr{X: ast.NewIdent("simrt"), Sel: ast.NewIdent(repl)}
							r.useSim, r.changed = true, true
							stats[strings.ToLower(repl)]++
						}
					}
				}
			}
		}
		return true
	})
}

// checkUnhandled reports channel operations that were not instrumented.
func (r *rw) checkUnhandled(f *ast.File) {
	var stack []ast.Node
	ast.Inspect(f, func(n ast.Node) bool {
		if n == nil {
			stack = stack[:len(stack)-1]
			return true
		}
		stack = append(stack, n)
		bad := false
		switch x := n.(type) {
		case *ast.UnaryExpr:
			bad = x.Op == token.ARROW
		case *ast.SendStmt:
			bad = true
		}
		if bad {
			ok := false
			for _, a := range stack {
				if r.handled[a] {
					ok = true
				}
				if s, isStmt := a.(ast.Stmt); isStmt && r.skip[s] {
					ok = true
				}
				if cc, isComm := a.(*ast.CommClause); isComm && cc.Comm != nil {
					// the comm statement itself (not the body)
					if cc.Comm.Pos() <= n.Pos() && n.End() <= cc.Comm.End() {
						ok = true
					}
				}
			}
			if !ok {
				problems = append(problems, fmt.Sprintf("unhandled channel operation at %s", r.pkg.Fset.Position(n.Pos())))
			}
		}
		return true
	})
}

func main() {
	dir := flag.String("dir", "", "scratch copy of the pebble module")
	atomicPkgs := flag.String("atomics", "", "comma-separated package path suffixes that get atomic yields ('all' for every package)")
	flag.Parse()
	abs, err := filepath.Abs(*dir)
	if err != nil {
		fmt.Fprintln(os.Stderr, err)
		os.Exit(2)
	}
	*dir = abs
	cfg := &packages.Config{
		Mode: packages.NeedName | packages.NeedFiles | packages.NeedCompiledGoFiles | packages.NeedSyntax | packages.NeedTypes | packages.NeedTypesInfo | packages.NeedImports | packages.NeedDeps,
		Dir:  *dir, Tests: false,
		BuildFlags: []string{"-tags=invariants"},
	}
	pkgs, err := packages.Load(cfg, flag.Args()...)
	if err != nil {
		fmt.Fprintln(os.Stderr, err)
		os.Exit(2)
	}
	atomicWanted := func(path string) bool {
		// internal/manual is called from swiss-map rehashes whose timing depends
		// on a per-process hash seed: no optional yield points there.
		if strings.HasSuffix(path, "internal/manual") {
			return false
		}
		if *atomicPkgs == "all" {
			return true
		}
		for _, s := range strings.Split(*atomicPkgs, ",") {
			if s != "" && strings.HasSuffix(path, s) {
				return true
			}
		}
		return false
	}
	for _, p := range pkgs {
		for _, e := range p.Errors {
			problems = append(problems, fmt.Sprintf("load error: %v", e))
		}
		for i, f := range p.Syntax {
			fn := p.CompiledGoFiles[i]
			if !strings.HasPrefix(fn, *dir) || strings.HasSuffix(fn, "_test.go") {
				continue
			}
			r := &rw{pkg: p, file: f, base: filepath.Base(fn), skip: map[ast.Stmt]bool{}, handled: map[ast.Node]bool{}, visited: map[ast.Node]bool{}, atomics: atomicWanted(p.PkgPath)}
			r.walk(f)
			r.checkUnhandled(f)
			for _, imp := range f.Imports {
				switch imp.Path.Value {
				case `"math/rand/v2"`, `"math/rand"`, `"crypto/rand"`:
					if imp.Name == nil {
						imp.Name = ast.NewIdent("rand")
					}
					imp.Path.Value = strconv.Quote(simrandPath)
					r.changed = true
					stats["randimport"]++
				case `"sync"`:
					imp.Path.Value = strconv.Quote(simsyncPath)
					if imp.Name == nil {
						imp.Name = ast.NewIdent("sync")
					}
					r.changed = true
					stats["syncimport"]++
				}
			}
			if r.useSim {
				astutil.AddNamedImport(p.Fset, f, "simrt", simrtPath)
			}
			if !r.changed {
				continue
			}
			for _, path := range []string{"runtime", "time", "unsafe"} {
				if !astutil.UsesImport(f, path) {
					astutil.DeleteImport(p.Fset, f, path)
				}
			}
			var buf bytes.Buffer
			if err := format.Node(&buf, p.Fset, f); err != nil {
				fmt.Fprintln(os.Stderr, "format", fn, err)
				os.Exit(2)
			}
			if err := os.WriteFile(fn, buf.Bytes(), 0644); err != nil {
				fmt.Fprintln(os.Stderr, err)
				os.Exit(2)
			}
		}
	}
	for _, p := range pkgs {
		compiled := map[string]bool{}
		for _, f := range p.CompiledGoFiles {
			compiled[f] = true
		}
		for _, f := range p.GoFiles {
			if compiled[f] || !strings.HasPrefix(f, *dir) {
				continue
			}
			// cgo source: textual import redirect only.
			b, err := os.ReadFile(f)
			if err != nil {
				continue
			}
			nb := bytes.ReplaceAll(b, []byte("\t\"math/rand/v2\"\n"), []byte("\trand \""+simrandPath+"\"\n"))
			nb = bytes.ReplaceAll(nb, []byte("\t\"sync\"\n"), []byte("\tsync \""+simsyncPath+"\"\n"))
			if bytes.Contains(nb, []byte("<-")) || bytes.Contains(nb, []byte("go func")) {
				problems = append(problems, "cgo file with channel or go statements: "+f)
			}
			if !bytes.Equal(b, nb) {
				stats["cgofile"]++
				os.WriteFile(f, nb, 0644)
			}
		}
	}
	// R12: read-only accessors for oracles that cannot be phrased on the public API.
	if err := os.WriteFile(filepath.Join(*dir, "zz_verifsim_export.go"), []byte(exportFile), 0644); err != nil {
		problems = append(problems, "R12: "+err.Error())
	}
	stats["exportfile"]++
	// R10: no finalizer-based assertions.
	inv := filepath.Join(*dir, "internal/invariants/invariants.go")
	if b, err := os.ReadFile(inv); err == nil {
		old := []byte("const UseFinalizers = !buildtags.Race && (buildtags.Invariants || buildtags.Tracing)")
		if !bytes.Contains(b, old) {
			problems = append(problems, "R10: UseFinalizers definition not found in "+inv)
		} else {
			nb := bytes.Replace(b, old, []byte("const UseFinalizers = false && buildtags.Race"), 1)
			os.WriteFile(inv, nb, 0644)
			stats["finalizers"]++
		}
	}
	keys := make([]string, 0, len(stats))
	for k := range stats {
		keys = append(keys, k)
	}
	sort.Strings(keys)
	fmt.Print("rewrite stats:")
	for _, k := range keys {
		fmt.Printf(" %s=%d", k, stats[k])
	}
	fmt.Println()
	if len(problems) > 0 {
		for _, p := range problems {
			fmt.Fprintln(os.Stderr, "simrewrite:", p)
		}
		os.Exit(2)
	}
}
