// listmaps prints every `for ... range m` over a Go map in the non-test files of
// the module in -dir (audit aid for iteration-order nondeterminism).
package main

import (
	"flag"
	"fmt"
	"go/ast"
	"go/types"
	"os"
	"strings"

	"golang.org/x/tools/go/packages"
)

func main() {
	dir := flag.String("dir", "/repo", "module directory")
	flag.Parse()
	cfg := &packages.Config{Mode: packages.NeedName | packages.NeedFiles | packages.NeedCompiledGoFiles | packages.NeedSyntax | packages.NeedTypes | packages.NeedTypesInfo | packages.NeedImports | packages.NeedDeps,
		Dir: *dir, BuildFlags: []string{"-tags=invariants"}}
	pkgs, err := packages.Load(cfg, "./...")
	if err != nil {
		fmt.Fprintln(os.Stderr, err)
		os.Exit(2)
	}
	for _, p := range pkgs {
		for i, f := range p.Syntax {
			fn := p.CompiledGoFiles[i]
			if !strings.HasPrefix(fn, *dir) || strings.HasSuffix(fn, "_test.go") {
				continue
			}
			ast.Inspect(f, func(n ast.Node) bool {
				rs, ok := n.(*ast.RangeStmt)
				if !ok {
					return true
				}
				t := p.TypesInfo.TypeOf(rs.X)
				if t == nil {
					return true
				}
				if m, ok := t.Underlying().(*types.Map); ok {
					pos := p.Fset.Position(rs.Pos())
					fmt.Printf("%s:%d\tkey=%s\n", strings.TrimPrefix(pos.Filename, *dir+"/"), pos.Line, m.Key())
				}
				return true
			})
		}
	}
}
