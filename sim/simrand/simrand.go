// Package simrand replaces math/rand/v2 in rewritten Pebble code.
// Package-level functions draw from a dedicated stream of the active
// simulation's PRNG, so that one seed decides them.
package simrand

import (
	"math/rand/v2"

	"github.com/cockroachdb/pebble/verifsim/simrt"
)

type Rand = rand.Rand
type PCG = rand.PCG
type ChaCha8 = rand.ChaCha8
type Source = rand.Source
type Zipf = rand.Zipf

func New(src rand.Source) *rand.Rand                             { return rand.New(src) }
func NewPCG(a, b uint64) *rand.PCG                               { return rand.NewPCG(a, b) }
func NewChaCha8(seed [32]byte) *rand.ChaCha8                     { return rand.NewChaCha8(seed) }
func NewZipf(r *rand.Rand, s, v float64, imax uint64) *rand.Zipf { return rand.NewZipf(r, s, v, imax) }

//go:norace
func next() uint64 { return simrt.AppRng().Next() }

//go:norace
func Uint64() uint64 { return next() }

//go:norace
func Uint32() uint32 { return uint32(next() >> 32) }

//go:norace
func Int64() int64 { return int64(next() >> 1) }

//go:norace
func Int32() int32 { return int32(next() >> 33) }

//go:norace
func Int() int { return int(uint(next()) << 1 >> 1) }

//go:norace
func Uint64N(n uint64) uint64 {
	if n == 0 {
		panic("invalid argument to Uint64N")
	}
	return next() % n
}

//go:norace
func Uint32N(n uint32) uint32 { return uint32(Uint64N(uint64(n))) }

//go:norace
func UintN(n uint) uint { return uint(Uint64N(uint64(n))) }

//go:norace
func IntN(n int) int {
	if n <= 0 {
		panic("invalid argument to IntN")
	}
	return int(Uint64N(uint64(n)))
}

//go:norace
func Int64N(n int64) int64 {
	if n <= 0 {
		panic("invalid argument to Int64N")
	}
	return int64(Uint64N(uint64(n)))
}

//go:norace
func Int32N(n int32) int32 { return int32(Int64N(int64(n))) }

//go:norace
func N[I ~int | ~int8 | ~int16 | ~int32 | ~int64 | ~uint | ~uint8 | ~uint16 | ~uint32 | ~uint64 | ~uintptr](n I) I {
	if n <= 0 {
		panic("invalid argument to N")
	}
	return I(Uint64N(uint64(n)))
}

//go:norace
func Float64() float64 { return float64(next()<<11>>11) / (1 << 53) }

//go:norace
func Float32() float32 { return float32(next()<<40>>40) / (1 << 24) }

func Perm(n int) []int {
	p := make([]int, n)
	for i := range p {
		p[i] = i
	}
	Shuffle(n, func(i, j int) { p[i], p[j] = p[j], p[i] })
	return p
}

func Shuffle(n int, swap func(i, j int)) {
	for i := n - 1; i > 0; i-- {
		j := int(Uint64N(uint64(i + 1)))
		swap(i, j)
	}
}

func ExpFloat64() float64  { return rand.New(simrt.AppRng()).ExpFloat64() }
func NormFloat64() float64 { return rand.New(simrt.AppRng()).NormFloat64() }

// Read replaces crypto/rand.Read and math/rand.Read.
func Read(b []byte) (int, error) {
	for i := range b {
		b[i] = byte(next() >> 56)
	}
	return len(b), nil
}

// math/rand (v1) names.
func Intn(n int) int       { return IntN(n) }
func Int63() int64         { return Int64() }
func Int63n(n int64) int64 { return Int64N(n) }
func Int31n(n int32) int32 { return Int32N(n) }
