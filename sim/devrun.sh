#!/bin/bash
# dev helper: run N seeds of an engine/profile across 16 processes, summarise
eng=$1; prof=$2; from=$3; n=$4; shift 4
BIN=$(cd /verif && ./check build 2>/tmp/devbuild.err | tail -1); if [ ! -x "$BIN" ]; then cat /tmp/devbuild.err; exit 2; fi
rm -f /tmp/devrun.*.jsonl
per=$(( (n+15)/16 ))
for w in $(seq 0 15); do
  ( for i in $(seq 0 $((per-1))); do s=$((from + w*per + i)); GOMAXPROCS=2 $BIN -test.run TestSim -sim.engine $eng -sim.profile $prof -sim.seed $s -sim.out /tmp/devrun.$w.jsonl -sim.tier ${TIER:-quick} "$@" >/dev/null 2>/tmp/devrun.$w.err || echo "seed $s exit $?" >> /tmp/devrun.$w.jsonl; done ) &
done
wait
cat /tmp/devrun.*.jsonl | python3 -c "
import sys,json,collections
c=collections.Counter(); tot=collections.Counter(); first={}
wall=0
for l in sys.stdin:
    if not l.startswith('{'): print(l.strip()); continue
    r=json.loads(l); k=(r['status'],r.get('class')); c[k]+=1; wall+=r['wall_ms']
    for a,b in r['stats'].items(): tot[a]+=b
    if r['status']!='ok' and k not in first: first[k]=r
print(dict(c)); print('wall_ms total',wall)
print({k:v for k,v in sorted(tot.items()) if not k.startswith('fs.') and not k.startswith('op.')})
for k,r in first.items(): print('---',k,'seed',r['seed']); print((r.get('msg') or '')[:1500])
"
