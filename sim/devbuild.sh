#!/bin/bash
# dev helper: rewrite /repo into /var/tmp/verifsim/dev and build a test binary for the given package
set -e
export GOFLAGS=-mod=mod GOPROXY=off GOSUMDB=off GOTOOLCHAIN=local PATH=/opt/veriftools/go1.26.8/bin:$PATH
S=/var/tmp/verifsim/dev
cd /verif/sim
if [ "$1" = "rewrite" ]; then
  shift
  go build -o /verif/bin/simrewrite ./cmd/simrewrite
  rm -rf $S/src; mkdir -p $S/src
  (cd /repo && rsync -a --prune-empty-dirs --exclude='.git' --exclude='*_test.go' --include='*/' --include='*.go' --include='go.mod' --include='go.sum' --exclude='*' ./ $S/src/)
  (cd $S/src && /verif/bin/simrewrite -dir $S/src -atomics all ./...)
  sed "s#=> /repo#=> $S/src#" go.mod > $S/go.mod; cp go.sum $S/go.sum
fi
pkg=$1; shift
go test -modfile=$S/go.mod -tags invariants,verifsim "$@" -c -o $S/$(basename $pkg).test ./$pkg
