module github.com/cockroachdb/pebble/verifsim

go 1.25.3

require (
	github.com/cockroachdb/errors v1.11.3
	github.com/cockroachdb/pebble v0.0.0
	golang.org/x/tools v0.39.0
)

require (
	github.com/DataDog/zstd v1.5.7 // indirect
	github.com/FastFilter/xorfilter v0.4.2-0.20260120015552-4e5a4d9df65a // indirect
	github.com/RaduBerinde/axisds/v3 v3.0.0-20260318150237-54e03a7b4b4a // indirect
	github.com/RaduBerinde/btreemap v0.0.0-20260105202824-d3184786f603 // indirect
	github.com/RaduBerinde/tdigest v0.0.0-20251022152254-90e030c3a314 // indirect
	github.com/anishathalye/porcupine v1.3.0 // indirect
	github.com/beorn7/perks v1.0.1 // indirect
	github.com/cespare/xxhash/v2 v2.3.0 // indirect
	github.com/cockroachdb/crlib v0.0.0-20251122031428-fe658a2dbda1 // indirect
	github.com/cockroachdb/logtags v0.0.0-20230118201751-21c54148d20b // indirect
	github.com/cockroachdb/redact v1.1.5 // indirect
	github.com/cockroachdb/swiss v0.0.0-20251224182025-b0f6560f979b // indirect
	github.com/cockroachdb/tokenbucket v0.0.0-20230807174530-cc333fc44b06 // indirect
	github.com/getsentry/sentry-go v0.27.0 // indirect
	github.com/gogo/protobuf v1.3.2 // indirect
	github.com/golang/protobuf v1.5.3 // indirect
	github.com/golang/snappy v0.0.5-0.20231225225746-43d5d4cd4e0e // indirect
	github.com/google/btree v1.1.3 // indirect
	github.com/klauspost/compress v1.17.11 // indirect
	github.com/klauspost/cpuid/v2 v2.0.9 // indirect
	github.com/kr/pretty v0.3.1 // indirect
	github.com/kr/text v0.2.0 // indirect
	github.com/matttproud/golang_protobuf_extensions v1.0.4 // indirect
	github.com/minio/minlz v1.0.2-0.20260119185444-845e64f85661 // indirect
	github.com/pkg/errors v0.9.1 // indirect
	github.com/prometheus/client_golang v1.16.0 // indirect
	github.com/prometheus/client_model v0.3.0 // indirect
	github.com/prometheus/common v0.42.0 // indirect
	github.com/prometheus/procfs v0.10.1 // indirect
	github.com/puzpuzpuz/xsync/v3 v3.5.1 // indirect
	github.com/rogpeppe/go-internal v1.9.0 // indirect
	github.com/zeebo/xxh3 v1.0.2 // indirect
	golang.org/x/exp v0.0.0-20251113190631-e25ba8c21ef6 // indirect
	golang.org/x/mod v0.30.0 // indirect
	golang.org/x/sync v0.18.0 // indirect
	golang.org/x/sys v0.38.0 // indirect
	golang.org/x/text v0.31.0 // indirect
	google.golang.org/protobuf v1.33.0 // indirect
)

replace github.com/cockroachdb/pebble => /repo
