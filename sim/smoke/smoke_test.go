package smoke

import (
	"os"
	"flag"
	"fmt"
	"strings"
	"testing"
	"testing/synctest"
	"time"

	"github.com/cockroachdb/pebble"
	"github.com/cockroachdb/pebble/verifsim/simrt"
	"github.com/cockroachdb/pebble/verifsim/simsync"
	"github.com/cockroachdb/pebble/vfs"
)

var seed = flag.Uint64("seed", 1, "")
var yieldp = flag.Float64("yieldp", 0.2, "")
var atomicp = flag.Float64("atomicp", 0.0, "")
var policy = flag.Int("policy", 0, "")
var traceOn = flag.Bool("trace", false, "")
var clients = flag.Int("clients", 0, "")
var nops = flag.Int("nops", 3000, "")
var dump = flag.String("dump", "", "")

type logger struct{ t *testing.T }

func (l logger) Infof(format string, args ...interface{})  {}
func (l logger) Errorf(format string, args ...interface{}) { l.t.Logf(format, args...) }
func (l logger) Fatalf(format string, args ...interface{}) { panic(fmt.Sprintf(format, args...)) }

func runOnce(t *testing.T, seed uint64) (h uint64, steps int) {
	defer func() {
		if r := recover(); r != nil {
			if s := fmt.Sprint(r); strings.HasPrefix(s, "deadlock") {
				return
			}
			panic(r)
		}
	}()
	synctest.Test(t, func(t *testing.T) {
		s := simrt.New(seed, simrt.Config{YieldProb: *yieldp, AtomicProb: *atomicp, Policy: simrt.Policy(*policy), Sticky: 0.8, PCTDepth: 3, Trace: *traceOn, TraceAll: *traceOn,
			StarveMod: 3, StarveRem: 1, StarveTo: 1 << 30})
		start := time.Now()
		res := s.Run(&simrt.Inc{ID: 1}, func() {
			fs := vfs.NewMem()
			opts := &pebble.Options{FS: fs, MemTableSize: 32 << 10, Logger: logger{t}, L0CompactionThreshold: 2}
			db, err := pebble.Open("db", opts)
			if err != nil {
				t.Error(err)
				return
			}
			var wg simsync.WaitGroup
			for c := 0; c < *clients; c++ {
				wg.Add(1)
				c := c
				simrt.Go("client", func() {
					defer wg.Done()
					for i := 0; i < *nops/4; i++ {
						k := []byte(fmt.Sprintf("c%d-%05d", c, (i*7919)%300))
						if err := db.Set(k, make([]byte, 100), pebble.Sync); err != nil {
							t.Error(err)
							return
						}
						simrt.Progress()
						if i%50 == 0 {
							it, _ := db.NewIter(nil)
							n := 0
							for it.First(); it.Valid(); it.Next() {
								n++
							}
							it.Close()
						}
					}
				})
			}
			for i := 0; i < *nops; i++ {
				k := []byte(fmt.Sprintf("k%05d", (i*7919)%900))
				wo := pebble.NoSync
				if i%10 == 0 {
					wo = pebble.Sync
				}
				if err := db.Set(k, make([]byte, 64), wo); err != nil {
					t.Error(err)
					return
				}
				simrt.Progress()
			}
			wg.Wait()
			if err := db.Flush(); err != nil {
				t.Error(err)
			}
			if err := db.Compact(t.Context(), []byte("a"), []byte("z"), false); err != nil {
				t.Error(err)
			}
			m := db.Metrics()
			simrt.Note(fmt.Sprintf("flushes=%d compactions=%d", m.Flush.Count, m.Compact.Count))
			t.Logf("flushes=%d compactions=%d", m.Flush.Count, m.Compact.Count)
			if err := db.Close(); err != nil {
				t.Error(err)
			}
			t.Logf("live tasks after close: %v", s.LiveTaskKinds(simrt.CurInc()))
		})
		if res.FailKind != "" {
			t.Errorf("%s: %s", res.FailKind, res.FailMsg)
		}
		h, steps = s.Hash(), s.Steps
		if *dump != "" {
			os.WriteFile(*dump, []byte(strings.Join(s.TraceLog, "\n")), 0644)
		}
		t.Logf("seed=%d steps=%d yields=%d untracked=%d spawned=%d fake=%v hash=%x", seed, s.Steps, s.Yields, s.Untracked, s.Spawned, time.Since(start), s.Hash())
	})
	return
}

func TestSmoke(t *testing.T) {
	real := time.Now()
	_, steps := runOnce(t, *seed)
	t.Logf("real=%v steps=%d", time.Since(real), steps)
}
