// Package kvmodel is the executable reference model: an ordered log of
// committed mutation groups over a small key space, from which the visible
// state at any position is derived by a trivial fold. It imports nothing of
// Pebble's read path, compaction or range-key code; only the test-keys
// comparer is used for ordering and Split.
package kvmodel

import (
	"bytes"
	"fmt"
	"sort"
	"strings"

	"github.com/cockroachdb/pebble/internal/testkeys"
)

var Cmp = testkeys.Comparer

func Compare(a, b string) int { return Cmp.Compare([]byte(a), []byte(b)) }

// Prefix returns the key without its suffix.
func Prefix(k string) string { return k[:Cmp.Split([]byte(k))] }

// Suffix returns the suffix of a key (including '@'), or "".
func Suffix(k string) string { return k[Cmp.Split([]byte(k)):] }

// CompareSuffixes orders suffixes as the comparer does (larger timestamps first).
func CompareSuffixes(a, b string) int {
	return Cmp.ComparePointSuffixes([]byte(a), []byte(b))
}

// Op is one logical mutation.
type Op struct {
	K   string `json:"k"`             // set del delsized singledel delrange merge logdata rkset rkunset rkdel
	Key string `json:"key,omitempty"` // key or range start
	End string `json:"end,omitempty"` // range end
	Val string `json:"val,omitempty"`
	Suf string `json:"suf,omitempty"` // range-key suffix
}

func (o Op) String() string {
	switch o.K {
	case "set", "merge":
		return fmt.Sprintf("%s(%s,%s)", o.K, o.Key, short(o.Val))
	case "delrange", "rkdel":
		return fmt.Sprintf("%s[%s,%s)", o.K, o.Key, o.End)
	case "rkset":
		return fmt.Sprintf("rkset[%s,%s)%s=%s", o.Key, o.End, o.Suf, short(o.Val))
	case "rkunset":
		return fmt.Sprintf("rkunset[%s,%s)%s", o.Key, o.End, o.Suf)
	}
	return fmt.Sprintf("%s(%s)", o.K, o.Key)
}

func short(v string) string {
	if len(v) > 24 {
		return fmt.Sprintf("%s..(%d)", v[:16], len(v))
	}
	return v
}

// Group is an atomic unit of the history: a batch, an ingestion, an excise or
// an ingest-and-excise.
type Group struct {
	ID      int    `json:"id"`
	Kind    string `json:"kind"` // batch ingest excise ingestexcise
	Ops     []Op   `json:"ops"`
	ExStart string `json:"ex_start,omitempty"`
	ExEnd   string `json:"ex_end,omitempty"`
	SeqNum  uint64 `json:"seqnum,omitempty"`
}

// Touches reports whether the group may affect key k (point key space).
func (g *Group) Keys() []string {
	var out []string
	for _, o := range g.Ops {
		out = append(out, o.Key)
	}
	return out
}

// RangeFrag is a maximal-by-construction piece of the range-key state.
type rkInterval struct {
	start string
	set   map[string]string // suffix -> value
}

// State is the visible state after some prefix of the history.
type State struct {
	points map[string]string
	// range keys: boundaries sorted; bounds[i] starts interval i which ends at
	// bounds[i+1]; the last boundary has an empty set.
	rk []rkInterval
}

func NewState() *State { return &State{points: map[string]string{}} }

func (s *State) Clone() *State {
	n := &State{points: make(map[string]string, len(s.points)), rk: make([]rkInterval, len(s.rk))}
	for k, v := range s.points {
		n.points[k] = v
	}
	for i, iv := range s.rk {
		m := make(map[string]string, len(iv.set))
		for k, v := range iv.set {
			m[k] = v
		}
		n.rk[i] = rkInterval{iv.start, m}
	}
	return n
}

func (s *State) rkSplit(at string) int {
	i := sort.Search(len(s.rk), func(i int) bool { return Compare(s.rk[i].start, at) >= 0 })
	if i < len(s.rk) && s.rk[i].start == at {
		return i
	}
	if i < len(s.rk) && Compare(s.rk[i].start, at) == 0 {
		return i
	}
	var set map[string]string
	if i > 0 {
		set = make(map[string]string, len(s.rk[i-1].set))
		for k, v := range s.rk[i-1].set {
			set[k] = v
		}
	} else {
		set = map[string]string{}
	}
	s.rk = append(s.rk, rkInterval{})
	copy(s.rk[i+1:], s.rk[i:])
	s.rk[i] = rkInterval{at, set}
	return i
}

func (s *State) rkApply(start, end string, f func(set map[string]string)) {
	if Compare(start, end) >= 0 {
		return
	}
	// Split at end first so that the interval following the range keeps its set.
	s.rkSplit(end)
	i := s.rkSplit(start)
	j := s.rkSplit(end)
	for k := i; k < j; k++ {
		f(s.rk[k].set)
	}
}

// Apply applies one op to the state. (Contract-dependent kinds are resolved by
// the caller: singledel and delsized behave as del.)
func (s *State) Apply(o Op) {
	switch o.K {
	case "set":
		s.points[o.Key] = o.Val
	case "merge":
		s.points[o.Key] = s.points[o.Key] + o.Val
	case "del", "delsized", "singledel":
		delete(s.points, o.Key)
	case "delrange":
		for k := range s.points {
			if Compare(k, o.Key) >= 0 && Compare(k, o.End) < 0 {
				delete(s.points, k)
			}
		}
	case "logdata":
	case "rkset":
		s.rkApply(o.Key, o.End, func(set map[string]string) { set[o.Suf] = o.Val })
	case "rkunset":
		s.rkApply(o.Key, o.End, func(set map[string]string) { delete(set, o.Suf) })
	case "rkdel":
		s.rkApply(o.Key, o.End, func(set map[string]string) {
			for k := range set {
				delete(set, k)
			}
		})
	default:
		panic("kvmodel: unknown op kind " + o.K)
	}
}

// Excise removes every point and range key in [start,end).
func (s *State) Excise(start, end string) {
	s.Apply(Op{K: "delrange", Key: start, End: end})
	s.Apply(Op{K: "rkdel", Key: start, End: end})
}

// ApplyGroup applies a whole group.
func (s *State) ApplyGroup(g *Group) {
	switch g.Kind {
	case "excise":
		s.Excise(g.ExStart, g.ExEnd)
		return
	case "ingestexcise":
		s.Excise(g.ExStart, g.ExEnd)
	}
	if g.Kind == "ingest" || g.Kind == "ingestexcise" {
		// All keys of an ingestion share one sequence number: range deletions
		// and range-key deletions do not affect the points / range keys of the
		// same ingestion, so they are applied first.
		for _, o := range g.Ops {
			if o.K == "delrange" || o.K == "rkdel" {
				s.Apply(o)
			}
		}
		for _, o := range g.Ops {
			if o.K == "rkunset" {
				s.Apply(o)
			}
		}
		for _, o := range g.Ops {
			if o.K != "delrange" && o.K != "rkdel" && o.K != "rkunset" {
				s.Apply(o)
			}
		}
		return
	}
	for _, o := range g.Ops {
		s.Apply(o)
	}
}

// KV is a visible point.
type KV struct{ K, V string }

// Points returns the visible points in comparer order.
func (s *State) Points() []KV {
	out := make([]KV, 0, len(s.points))
	for k, v := range s.points {
		out = append(out, KV{k, v})
	}
	sort.Slice(out, func(i, j int) bool { return Compare(out[i].K, out[j].K) < 0 })
	return out
}

// Get returns the value of key k.
func (s *State) Get(k string) (string, bool) {
	v, ok := s.points[k]
	return v, ok
}

// RKey is one (suffix,value) pair of a range-key span.
type RKey struct{ Suf, Val string }

// Span is a defragmented range-key span: a maximal interval over which the
// set of (suffix,value) pairs is constant and non-empty.
type Span struct {
	Start, End string
	Keys       []RKey // ordered as the comparer orders suffixes
}

func setEqual(a, b map[string]string) bool {
	if len(a) != len(b) {
		return false
	}
	for k, v := range a {
		if w, ok := b[k]; !ok || w != v {
			return false
		}
	}
	return true
}

// Spans returns the defragmented range-key spans in order.
func (s *State) Spans() []Span {
	var out []Span
	for i := 0; i+1 < len(s.rk); i++ {
		iv := s.rk[i]
		if len(iv.set) == 0 {
			continue
		}
		end := s.rk[i+1].start
		if n := len(out); n > 0 && out[n-1].End == iv.start && setEqual(s.rk[i-1].set, iv.set) {
			out[n-1].End = end
			continue
		}
		sp := Span{Start: iv.start, End: end}
		for k, v := range iv.set {
			sp.Keys = append(sp.Keys, RKey{k, v})
		}
		sort.Slice(sp.Keys, func(a, b int) bool { return CompareSuffixes(sp.Keys[a].Suf, sp.Keys[b].Suf) < 0 })
		out = append(out, sp)
	}
	return out
}

// Model is the history.
type Model struct {
	Groups []*Group
	states []*State // states[i] = state after i groups (memoised lazily)
}

func New() *Model { return &Model{states: []*State{NewState()}} }

// Append adds a committed group and returns its position (the new length).
func (m *Model) Append(g *Group) int {
	m.Groups = append(m.Groups, g)
	return len(m.Groups)
}

// Len is the current position (number of committed groups).
func (m *Model) Len() int { return len(m.Groups) }

// StateAt returns the state after the first n groups. The result must not be
// modified.
func (m *Model) StateAt(n int) *State {
	for len(m.states) <= n {
		i := len(m.states)
		s := m.states[i-1].Clone()
		s.ApplyGroup(m.Groups[i-1])
		m.states = append(m.states, s)
	}
	return m.states[n]
}

// Latest is StateAt(Len()).
func (m *Model) Latest() *State { return m.StateAt(m.Len()) }

// Truncate drops groups after position n (used when a crash loses a suffix).
func (m *Model) Truncate(n int) {
	m.Groups = m.Groups[:n]
	if len(m.states) > n+1 {
		m.states = m.states[:n+1]
	}
}

// Reset replaces the history by the given groups (used after a crash that
// recovered a non-contiguous but consistent subset).
func (m *Model) Reset(groups []*Group) {
	m.Groups = append([]*Group(nil), groups...)
	m.states = []*State{NewState()}
}

// FoldSubset returns the state obtained by applying the given groups in order.
func FoldSubset(groups []*Group) *State {
	s := NewState()
	for _, g := range groups {
		s.ApplyGroup(g)
	}
	return s
}

// DiffPoints describes the first difference between a model point list and an
// observed one ("" if equal).
func DiffPoints(want, got []KV) string {
	for i := 0; i < len(want) || i < len(got); i++ {
		switch {
		case i >= len(want):
			return fmt.Sprintf("extra key %q=%q at index %d (model has %d keys)", got[i].K, short(got[i].V), i, len(want))
		case i >= len(got):
			return fmt.Sprintf("missing key %q=%q at index %d (got %d keys)", want[i].K, short(want[i].V), i, len(got))
		case want[i].K != got[i].K:
			return fmt.Sprintf("index %d: model key %q, got key %q", i, want[i].K, got[i].K)
		case want[i].V != got[i].V:
			return fmt.Sprintf("key %q: model value %q, got %q", want[i].K, short(want[i].V), short(got[i].V))
		}
	}
	return ""
}

// FormatSpans renders spans for messages.
func FormatSpans(sp []Span) string {
	var b strings.Builder
	for _, s := range sp {
		fmt.Fprintf(&b, "[%s,%s){", s.Start, s.End)
		for i, k := range s.Keys {
			if i > 0 {
				b.WriteByte(' ')
			}
			fmt.Fprintf(&b, "%s=%s", k.Suf, short(k.Val))
		}
		b.WriteString("} ")
	}
	return b.String()
}

var _ = bytes.Compare
