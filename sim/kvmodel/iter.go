package kvmodel

import "sort"

// Key-type selection of an iterator.
const (
	PointsOnly = 0
	RangesOnly = 1
	Both       = 2
)

// IterCfg mirrors the iterator options the workloads use. Empty bounds mean
// "no bound".
type IterCfg struct {
	Lower, Upper string
	KeyTypes     int
	Mask         string // range-key masking suffix ("" = no masking)
}

// Pos is an iterator position.
type Pos struct {
	Valid    bool
	AtLimit  bool
	Key      string
	HasPoint bool
	Val      string
	HasRange bool
	Span     Span // clipped bounds and keys, if HasRange
}

// Iter is the reference iterator over a fixed state.
type Iter struct {
	st  *State
	cfg IterCfg
	pts []KV
	sps []Span
	Pos Pos
	Dir int // +1 after a forward op, -1 after a backward op, 0 unpositioned
	// prefix mode
	InPrefix bool
	prefix   string
	// Exhausted: +1 ran off the end, -1 ran off the start
	Exhausted int
	// paused at a limit: resume information
	paused     int // +1 forward, -1 backward
	resumeKey  string
	resumeIncl bool
	// NeedSeek is set by SetBounds/SetOptions: only absolute positioning is allowed next.
	NeedSeek bool
	lastSpan *Span
}

// masked reports whether point key k is hidden by range-key masking.
func masked(k string, mask string, spans []Span) bool {
	if mask == "" {
		return false
	}
	ps := Suffix(k)
	if ps == "" {
		return false
	}
	for i := range spans {
		sp := &spans[i]
		if Compare(sp.Start, k) <= 0 && Compare(k, sp.End) < 0 {
			for _, rk := range sp.Keys {
				if rk.Suf == "" {
					continue
				}
				// hidden iff mask <= r < p in suffix order
				if CompareSuffixes(mask, rk.Suf) <= 0 && CompareSuffixes(rk.Suf, ps) < 0 {
					return true
				}
			}
		}
	}
	return false
}

// NewIter builds the reference iterator for a state and options.
func NewIter(st *State, cfg IterCfg) *Iter {
	it := &Iter{st: st}
	it.configure(cfg)
	return it
}

func (it *Iter) configure(cfg IterCfg) {
	it.cfg = cfg
	it.pts, it.sps = nil, nil
	all := it.st.Spans()
	if cfg.KeyTypes != PointsOnly {
		for _, sp := range all {
			if cfg.Lower != "" && Compare(sp.Start, cfg.Lower) < 0 {
				sp.Start = cfg.Lower
			}
			if cfg.Upper != "" && Compare(sp.End, cfg.Upper) > 0 {
				sp.End = cfg.Upper
			}
			if Compare(sp.Start, sp.End) < 0 {
				it.sps = append(it.sps, sp)
			}
		}
	}
	if cfg.KeyTypes != RangesOnly {
		for _, kv := range it.st.Points() {
			if cfg.Lower != "" && Compare(kv.K, cfg.Lower) < 0 {
				continue
			}
			if cfg.Upper != "" && Compare(kv.K, cfg.Upper) >= 0 {
				continue
			}
			if cfg.KeyTypes == Both && masked(kv.K, cfg.Mask, all) {
				continue
			}
			it.pts = append(it.pts, kv)
		}
	}
	it.Pos = Pos{}
	it.Dir, it.Exhausted, it.paused, it.InPrefix = 0, 0, 0, false
	it.lastSpan = nil
}

// SetOptions reconfigures the iterator (same state) and invalidates its position.
func (it *Iter) SetOptions(cfg IterCfg) {
	it.configure(cfg)
	it.NeedSeek = true
}

// Cfg returns the current options.
func (it *Iter) Cfg() IterCfg { return it.cfg }

// spanAt returns the span covering k, if any.
func (it *Iter) spanAt(k string) *Span {
	i := sort.Search(len(it.sps), func(i int) bool { return Compare(it.sps[i].End, k) > 0 })
	if i < len(it.sps) && Compare(it.sps[i].Start, k) <= 0 {
		return &it.sps[i]
	}
	return nil
}

// fwd returns the smallest stop key >= k (incl) or > k (!incl).
func (it *Iter) fwd(k string, incl bool, unbounded bool) (string, bool) {
	var best string
	found := false
	// points
	i := 0
	if !unbounded {
		i = sort.Search(len(it.pts), func(i int) bool {
			c := Compare(it.pts[i].K, k)
			if incl {
				return c >= 0
			}
			return c > 0
		})
	}
	if i < len(it.pts) {
		best, found = it.pts[i].K, true
	}
	// spans
	for j := range it.sps {
		sp := &it.sps[j]
		var stop string
		switch {
		case unbounded:
			stop = sp.Start
		case incl:
			if Compare(sp.End, k) <= 0 {
				continue
			}
			stop = sp.Start
			if Compare(stop, k) < 0 {
				stop = k
			}
		default:
			if Compare(sp.Start, k) <= 0 {
				continue
			}
			stop = sp.Start
		}
		if !found || Compare(stop, best) < 0 {
			best, found = stop, true
		}
		break
	}
	return best, found
}

// bwd returns the largest stop key < k (or the largest of all if unbounded).
func (it *Iter) bwd(k string, unbounded bool) (string, bool) {
	var best string
	found := false
	i := len(it.pts)
	if !unbounded {
		i = sort.Search(len(it.pts), func(i int) bool { return Compare(it.pts[i].K, k) >= 0 })
	}
	if i > 0 {
		best, found = it.pts[i-1].K, true
	}
	for j := len(it.sps) - 1; j >= 0; j-- {
		sp := &it.sps[j]
		if !unbounded && Compare(sp.Start, k) >= 0 {
			continue
		}
		if !found || Compare(sp.Start, best) > 0 {
			best, found = sp.Start, true
		}
		break
	}
	return best, found
}

func (it *Iter) prefixEnd() string { return it.prefix + "\x00" }

// land positions the iterator at stop key k.
func (it *Iter) land(k string, ok bool, dir int) {
	it.paused = 0
	it.Dir = dir
	if ok && it.InPrefix && Prefix(k) != it.prefix {
		ok = false
	}
	if !ok {
		it.Pos = Pos{}
		it.Exhausted = dir
		it.lastSpan = nil
		return
	}
	it.Exhausted = 0
	p := Pos{Valid: true, Key: k}
	j := sort.Search(len(it.pts), func(i int) bool { return Compare(it.pts[i].K, k) >= 0 })
	if j < len(it.pts) && it.pts[j].K == k {
		p.HasPoint, p.Val = true, it.pts[j].V
	}
	if sp := it.spanAt(k); sp != nil {
		p.HasRange = true
		p.Span = *sp
		if it.InPrefix {
			if Compare(p.Span.Start, it.prefix) < 0 {
				p.Span.Start = it.prefix
			}
			if Compare(p.Span.End, it.prefixEnd()) > 0 {
				p.Span.End = it.prefixEnd()
			}
		}
		it.lastSpan = sp
	} else {
		it.lastSpan = nil
	}
	it.Pos = p
}

func (it *Iter) clampLower(k string) string {
	if it.cfg.Lower != "" && Compare(k, it.cfg.Lower) < 0 {
		return it.cfg.Lower
	}
	return k
}

func (it *Iter) First() {
	it.InPrefix, it.NeedSeek = false, false
	if it.cfg.Lower != "" {
		k, ok := it.fwd(it.cfg.Lower, true, false)
		it.land(k, ok, +1)
		return
	}
	k, ok := it.fwd("", true, true)
	it.land(k, ok, +1)
}

func (it *Iter) Last() {
	it.InPrefix, it.NeedSeek = false, false
	if it.cfg.Upper != "" {
		k, ok := it.bwd(it.cfg.Upper, false)
		it.land(k, ok, -1)
		return
	}
	k, ok := it.bwd("", true)
	it.land(k, ok, -1)
}

func (it *Iter) SeekGE(key string) {
	it.InPrefix, it.NeedSeek = false, false
	k, ok := it.fwd(it.clampLower(key), true, false)
	it.land(k, ok, +1)
}

func (it *Iter) SeekPrefixGE(key string) {
	it.NeedSeek = false
	it.InPrefix = true
	it.prefix = Prefix(key)
	k, ok := it.fwd(it.clampLower(key), true, false)
	it.land(k, ok, +1)
}

func (it *Iter) SeekLT(key string) {
	it.InPrefix, it.NeedSeek = false, false
	if it.cfg.Upper != "" && Compare(key, it.cfg.Upper) > 0 {
		key = it.cfg.Upper
	}
	k, ok := it.bwd(key, false)
	it.land(k, ok, -1)
}

// Next moves forward. From a backward-exhausted iterator it goes to First.
func (it *Iter) Next() {
	switch {
	case it.paused > 0:
		k, ok := it.fwd(it.resumeKey, it.resumeIncl, false)
		it.land(k, ok, +1)
	case it.paused < 0:
		// paused while moving backward: resume point is the key we came from
		k, ok := it.fwd(it.resumeKey, true, false)
		it.land(k, ok, +1)
	case it.Pos.Valid:
		k, ok := it.fwd(it.Pos.Key, false, false)
		it.land(k, ok, +1)
	case it.Exhausted < 0:
		pfx := it.InPrefix
		it.First()
		it.InPrefix = pfx
	default:
		it.land("", false, +1)
	}
}

// Prev moves backward. From a forward-exhausted iterator it goes to Last.
func (it *Iter) Prev() {
	switch {
	case it.paused < 0:
		k, ok := it.bwd(it.resumeKey, false)
		it.land(k, ok, -1)
	case it.paused > 0:
		if it.resumeIncl {
			k, ok := it.bwd(it.resumeKey, false)
			it.land(k, ok, -1)
		} else {
			// paused after leaving resumeKey forward: Prev returns to it
			k, ok := it.fwd(it.resumeKey, true, false)
			it.land(k, ok, -1)
		}
	case it.Pos.Valid:
		k, ok := it.bwd(it.Pos.Key, false)
		it.land(k, ok, -1)
	case it.Exhausted > 0:
		it.Last()
	default:
		it.land("", false, -1)
	}
}

// NextPrefix moves to the first position whose prefix is greater than the
// current key's prefix.
func (it *Iter) NextPrefix() {
	if !it.Pos.Valid {
		it.Next()
		return
	}
	succ := Prefix(it.Pos.Key) + "\x00"
	k, ok := it.fwd(succ, true, false)
	it.land(k, ok, +1)
}

// PeekFwd returns the stop the iterator would reach by moving forward from
// its current state (used by limit oracles), without moving.
func (it *Iter) PeekFwd() (string, bool) {
	c := *it
	c.Next()
	return c.Pos.Key, c.Pos.Valid
}

func (it *Iter) PeekBwd() (string, bool) {
	c := *it
	c.Prev()
	return c.Pos.Key, c.Pos.Valid
}

// PauseFwd records that the real iterator paused at a limit while looking for
// the first stop >= key (incl) or > key.
func (it *Iter) PauseFwd(key string, incl bool) {
	it.paused, it.resumeKey, it.resumeIncl = +1, key, incl
	it.Pos = Pos{AtLimit: true}
	it.Dir = +1
	it.Exhausted = 0
	it.lastSpan = nil
}

// PauseBwd records a pause while looking for the last stop < key.
func (it *Iter) PauseBwd(key string) {
	it.paused, it.resumeKey, it.resumeIncl = -1, key, false
	it.Pos = Pos{AtLimit: true}
	it.Dir = -1
	it.Exhausted = 0
	it.lastSpan = nil
}

// Paused reports whether the iterator is paused at a limit.
func (it *Iter) Paused() int { return it.paused }
