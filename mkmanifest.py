#!/usr/bin/env python3
"""Regenerates MANIFEST.json from props.py (claimed checks) and the fixed not-applicable table."""
import json, os
from props import PROPS, META

NA = {
 "C16": "pure function of a set of L0 file metadata: no schedule, clock, fault, crash or history of a running system in its quantifier (inputs only); feeding it generated inputs would be property-based testing, not simulation",
 "C17": "pure function of an internal-key stream, a snapshot list and an elision flag (inputs only); its system-level consequence is decided under C03/C14",
 "C23": "pure encode/decode/accumulate of version edits (inputs only); no concurrency, time, I/O or fault involved",
 "C25": "pure function of (entries, writer options): single-threaded, fault-free write-then-read of one table (inputs/configurations only)",
 "C26": "pure function of a key set and filter parameters (inputs only)",
 "C28": "pure function of a byte string and a compression setting (inputs/configurations only)",
 "C29": "pure function of a table, virtual bounds and transform parameters (inputs only)",
 "C31": "pure batch encoding/decoding of byte strings (inputs only)",
 "C32": "pure function of a span set (inputs only)",
 "C33": "pure function of in-memory levels given as input (inputs only)",
 "C35": "pure functions of keys (comparer contracts; inputs only)",
 "C46": "pure function of an Options value (serialize/parse round trip; inputs/configurations only)",
}

def technique(pid, p):
    base = "deterministic simulation with fault injection: real Pebble code (source-rewritten so that a seeded baton scheduler decides every interleaving, on a fake clock and a simulated disk) driven by seeded plans; "
    eng, prof = p["engine"], p["profile"]
    if eng == "dbsim" and p["level"] == "fault_enumeration":
        return base + "crash faults enumerated inside each seeded run (crash images at sampled/all disk-mutation indices x survival specs of unsynced data, recovered by real Pebble) and checked against a reference model of the history"
    if eng == "dbsim" and prof in ("iofault", "corrupt"):
        return base + "seeded I/O-error rules and one-shot faults armed inside operations / bit rot of files at rest; every returned result checked against a reference model, recovery checked with the crash oracle"
    if eng == "dbsim" and prof in ("commit", "concurrent"):
        return base + "seeded schedule search over concurrent clients; the recorded history (event-sequence stamped) is checked against the reference model in sequence-number order (atomicity, read-your-writes, monotone visibility)" + ("; race detector build" if p.get("race") else "")
    if eng == "dbsim":
        return base + "seeded search over histories, configurations and background-work schedules; every read checked operation by operation against an independent reference model"
    if eng == "cache":
        return base + "seeded schedule search at atomic-operation granularity; recorded history checked for linearizability with porcupine against a per-block register model"
    if eng == "marker":
        return base + "complete enumeration of crash points x survival subsets within each seeded sequence, with injected I/O errors"
    return base + "seeded schedule (and fault) search on the real component, oracle evaluated at every step"


def main():
    here = os.path.dirname(os.path.abspath(__file__))
    ids = [json.loads(l)["id"] for l in open(os.path.join(here, "properties.jsonl"))]
    checks = []
    for pid in ids:
        if pid not in PROPS:
            continue
        p = PROPS[pid]; m = META[pid]
        checks.append({
            "property_id": pid,
            "quick_cmd": "./check %s --tier quick" % pid,
            "thorough_cmd": "./check %s --tier thorough" % pid,
            "evidence_file": "/verif/evidence/%s.json" % pid,
            "replay_cmd_template": "./check replay {path}",
            "engine": "%s/%s" % (p["engine"], p["profile"]),
            "level_claimed": {"category": p["level"], "text": m["text"], "design_ref": m.get("design_ref", "DESIGN.md section 3, " + pid)},
            "level_note": m["note"],
            "technique": m.get("technique", technique(pid, p)),
        })
    na = [{"property_id": pid, "reason": NA.get(pid, "not claimed yet: the simulation profile for this property is not built/validated at this commit (see DESIGN.md section 12)")} for pid in ids if pid not in PROPS]
    man = {
        "version": 1,
        "setup_cmd": "./check setup",
        "hooks": {
            "guard": "verifsim",
            "enable": "no hooks live in /repo: each check copies /repo's working tree to a scratch directory, rewrites it mechanically with /verif/bin/simrewrite (sync -> simsync, go/chan/select/timers -> simrt, math/rand -> simrand) and builds it with -tags invariants,verifsim",
            "baseline_off_cmd": "cd /repo && go test -vet=off -count=1 -timeout 25m ./...",
            "source_commits": [],
            "add_only": True,
        },
        "engines": [
            {"name": "dbsim", "path": "sim/engine/dbsim_*.go", "serves_properties": [c["property_id"] for c in checks if c["engine"].startswith("dbsim")], "kind_free_text": "whole real pebble.DB under the baton scheduler on the simulated disk, checked against kvmodel"},
            {"name": "compsim", "path": "sim/engine/comp_*.go", "serves_properties": [c["property_id"] for c in checks if not c["engine"].startswith("dbsim")], "kind_free_text": "component engines (record log, log writer, marker, skiplist, cache, shared objects, failover) on the same runtime"},
        ],
        "checks": checks,
        "not_applicable": na,
        "notes": "Technique: deterministic simulation with fault injection. See DESIGN.md. Exit codes of ./check: 0 held, 1 violation (VIOLATION line + replay file), 2 tooling trouble.",
    }
    json.dump(man, open(os.path.join(here, "MANIFEST.json"), "w"), indent=1)
    print("MANIFEST.json: %d checks, %d not claimed" % (len(checks), len(na)))

if __name__ == "__main__":
    main()
