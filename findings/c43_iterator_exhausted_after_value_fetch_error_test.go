package pebble

import (
	"strings"
	"sync/atomic"
	"testing"

	"github.com/cockroachdb/errors"
	"github.com/cockroachdb/pebble/internal/testkeys"
	"github.com/cockroachdb/pebble/vfs"
	"github.com/cockroachdb/pebble/vfs/errorfs"
	"github.com/stretchr/testify/require"
)

// Demonstration for property C43: Iterator.ValueAndErr, when the lazy fetch of
// a separated value fails (here: the blob file cannot be opened), records the
// error and marks the iterator IterExhausted but leaves lastPositioningOp at
// "seekLT" (or "seekGE"). The next SeekLT to the same or an earlier key (SeekGE:
// same or later) clears the error and then takes the no-op shortcut "the last
// seek already found nothing there": it reports an exhausted iterator with
// Error() == nil although the key exists - a silently wrong result after one
// I/O error. Found by ./check C43 (dbsim/iofault, plan seed 5204810240547762529,
// minimised to 7 operations). Place in the repository root (package pebble):
//
//	go test -vet=off -count=1 -run TestVerifIteratorExhaustedAfterValueFetchError .
func TestVerifIteratorExhaustedAfterValueFetchError(t *testing.T) {
	for skip := int64(0); skip < 6; skip++ {
		mem := vfs.NewMem()
		var arm atomic.Bool
		var seen, injected atomic.Int64
		inj := errorfs.InjectorFunc(func(op errorfs.Op) error {
			if arm.Load() && injected.Load() == 0 && (op.Kind == errorfs.OpOpen || op.Kind == errorfs.OpFileStat) && (strings.HasSuffix(op.Path, ".sst") || strings.HasSuffix(op.Path, ".blob")) {
				if seen.Add(1) > skip {
					injected.Add(1)
					return errors.New("injected open error")
				}
			}
			return nil
		})
		opts := &Options{FS: errorfs.Wrap(mem, inj), Comparer: testkeys.Comparer, FormatMajorVersion: FormatNewest, DisableAutomaticCompactions: true, MaxOpenFiles: 0, CacheSize: 1024}
		opts.ValueSeparationPolicy = func() ValueSeparationPolicy {
			return ValueSeparationPolicy{Enabled: true, MinimumSize: 1, MinimumMVCCGarbageSize: 1, MaxBlobReferenceDepth: 5}
		}
		d, err := Open("db", opts)
		require.NoError(t, err)
		require.NoError(t, d.Set([]byte("aa"), []byte(strings.Repeat("v", 6000)), nil))
		require.NoError(t, d.Flush())
		it, err := d.NewIter(&IterOptions{UpperBound: []byte("ebx"), KeyTypes: IterKeyTypePointsAndRanges})
		require.NoError(t, err)
		arm.Store(true)
		ok1 := it.SeekLT([]byte("ba@2"))
		var v1 []byte
		var verr error
		if ok1 {
			v1, verr = it.ValueAndErr()
		}
		e1 := it.Error()
		ok2 := it.SeekLT([]byte("aa@2"))
		e2 := it.Error()
		t.Logf("skip=%d injected=%d: first SeekLT valid=%v valueLen=%d valueErr=%v err=%v; second SeekLT valid=%v err=%v", skip, injected.Load(), ok1, len(v1), verr, e1, ok2, e2)
		if !ok2 && e2 == nil {
			t.Errorf("skip=%d: second SeekLT(aa@2) is exhausted with no error although key aa exists", skip)
		}
		it.Close()
		arm.Store(false)
		d.Close()
	}
}
