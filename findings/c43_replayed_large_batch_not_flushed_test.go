package pebble

import (
	"fmt"
	"io"
	"sort"
	"strings"
	"testing"

	"github.com/cockroachdb/pebble/internal/base"
	"github.com/cockroachdb/pebble/objstorage/objstorageprovider"
	"github.com/cockroachdb/pebble/sstable"
	"github.com/cockroachdb/pebble/vfs"
	"github.com/stretchr/testify/require"
)

// Demonstration for properties C43 and C11: a large batch (one that becomes a
// flushableBatch) replayed from the WAL by Open was not marked flushForced,
// unlike replayed memtables. When it was the only flushable left in the queue
// (here: because a replayed flushable ingest ahead of it is flushed on its
// own), Open's "flush everything that was replayed" step did not flush it:
// its size was below the flush threshold. Open then created a new WAL while the
// manifest's minimum unflushed log number still named the large batch's WAL. The
// WAL after it -- the last one of the crashed process, whose torn tail Open had
// just tolerated -- was thereby no longer the last WAL, and the next Open (even
// after a clean Close) rejected its torn tail: "pebble: error when replaying
// WAL: pebble/record: unexpected EOF". The store could not be opened again.
//
// Place this file in the repository root (package pebble) and run
//
//	go test -vet=off -count=1 -run TestVerifReplayedLargeBatchIsFlushed .
func TestVerifReplayedLargeBatchIsFlushed(t *testing.T) {
	fs := vfs.NewCrashableMem()
	mkOpts := func(fs vfs.FS) *Options {
		o := &Options{
			FS:                          fs,
			FormatMajorVersion:          FormatNewest,
			MemTableSize:                64 << 10,
			MemTableStopWritesThreshold: 10,
			DisableAutomaticCompactions: true,
		}
		o.EnsureDefaults()
		return o
	}
	d, err := Open("db", mkOpts(fs))
	require.NoError(t, err)

	// A key in the memtable, so that the ingest below overlaps the memtable and
	// is done as a flushable ingest.
	require.NoError(t, d.Set([]byte("a"), []byte("1"), Sync))
	// Hold back flushes: everything below stays in the WALs.
	d.mu.Lock()
	d.mu.compact.flushing = true
	d.mu.Unlock()

	require.NoError(t, fs.MkdirAll("ext", 0755))
	f, err := fs.Create("ext/1.sst", vfs.WriteCategoryUnspecified)
	require.NoError(t, err)
	w := sstable.NewWriter(objstorageprovider.NewFileWritable(f), d.opts.MakeWriterOptions(0, d.TableFormat()))
	require.NoError(t, w.Set([]byte("a"), []byte("2")))
	require.NoError(t, w.Close())
	require.NoError(t, d.Ingest(t.Context(), []string{"ext/1.sst"}))

	// A large batch: big enough (as a memtable footprint) to become a
	// flushableBatch, small enough (in bytes) to stay below half a memtable.
	b := d.NewBatch()
	for i := 0; i < 800; i++ {
		require.NoError(t, b.Set([]byte(fmt.Sprintf("k%04d", i)), []byte("v"), nil))
	}
	require.GreaterOrEqual(t, b.memTableSize, d.largeBatchThreshold)
	require.Less(t, uint64(len(b.Repr())), d.opts.MemTableSize/2)
	require.NoError(t, b.Commit(Sync))

	// One more synced write, into the WAL created after the large batch.
	require.NoError(t, d.Set([]byte("z"), []byte(strings.Repeat("z", 1000)), Sync))

	// Crash: only synced data survives, and the last WAL has a torn tail.
	crashed := fs.CrashClone(vfs.CrashCloneCfg{UnsyncedDataPercent: 0})
	d.mu.Lock()
	d.mu.compact.flushing = false
	d.mu.Unlock()
	require.NoError(t, d.Close())

	ls, err := crashed.List("db")
	require.NoError(t, err)
	var logs []string
	for _, n := range ls {
		if strings.HasSuffix(n, ".log") {
			logs = append(logs, n)
		}
	}
	sort.Strings(logs)
	require.GreaterOrEqual(t, len(logs), 2)
	last := "db/" + logs[len(logs)-1]
	rf, err := crashed.Open(last)
	require.NoError(t, err)
	data, err := io.ReadAll(rf)
	require.NoError(t, err)
	require.NoError(t, rf.Close())
	require.Greater(t, len(data), 500)
	wf, err := crashed.Create(last, vfs.WriteCategoryUnspecified)
	require.NoError(t, err)
	_, err = wf.Write(data[:len(data)-300])
	require.NoError(t, err)
	require.NoError(t, wf.Sync())
	require.NoError(t, wf.Close())
	t.Logf("WALs at the crash: %v (tail of %s torn)", logs, last)

	// Recovery tolerates the torn tail of the last WAL.
	d, err = Open("db", mkOpts(crashed))
	require.NoError(t, err)
	v, closer, err := d.Get([]byte("k0001"))
	require.NoError(t, err)
	require.Equal(t, "v", string(v))
	require.NoError(t, closer.Close())
	d.mu.Lock()
	minUnflushed := d.mu.versions.minUnflushedLogNum
	d.mu.Unlock()
	t.Logf("after recovery: min unflushed log %s", minUnflushed)
	require.NoError(t, d.Close())
	_ = base.DiskFileNum(0)

	// Nothing went wrong since; the store must open again.
	d, err = Open("db", mkOpts(crashed))
	require.NoError(t, err)
	require.NoError(t, d.Close())
}
