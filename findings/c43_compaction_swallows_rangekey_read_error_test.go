package pebble

import (
	"strings"
	"sync/atomic"
	"testing"

	"github.com/cockroachdb/errors"
	"github.com/cockroachdb/pebble/objstorage"
	"github.com/cockroachdb/pebble/sstable"
	"github.com/cockroachdb/pebble/vfs"
	"github.com/cockroachdb/pebble/vfs/errorfs"
	"github.com/stretchr/testify/require"
)

// Demonstration for property C43: a read error that hits the first positioning
// of a compaction's (lazily opened) range-key input iterator is swallowed by
// compact.Iter.First; the compaction then sees an empty input, "succeeds" and
// installs a version without the input tables: acknowledged data vanishes
// without any error.
func TestVerifCompactionSwallowsRangeKeyReadError(t *testing.T) {
	mem := vfs.NewMem()
	var failOffset atomic.Int64
	var failPath atomic.Value
	failPath.Store("")
	var injected atomic.Int64
	inj := errorfs.InjectorFunc(func(op errorfs.Op) error {
		p := failPath.Load().(string)
		if p != "" && op.Kind == errorfs.OpFileReadAt && strings.HasSuffix(op.Path, p) && op.Offset == failOffset.Load() {
			injected.Add(1)
			return errors.New("injected read error")
		}
		return nil
	})
	fs := errorfs.Wrap(mem, inj)
	opts := &Options{FS: fs, DisableAutomaticCompactions: true, FormatMajorVersion: FormatNewest}
	opts.DisableTableStats = true
	d, err := Open("db", opts)
	require.NoError(t, err)

	// Two overlapping L0 tables; the first holds a range key.
	require.NoError(t, d.Set([]byte("a"), []byte("1"), nil))
	require.NoError(t, d.RangeKeySet([]byte("a"), []byte("c"), []byte("@1"), []byte("rk"), nil))
	require.NoError(t, d.Flush())
	require.NoError(t, d.Set([]byte("b"), []byte("2"), nil))
	require.NoError(t, d.Flush())
	require.NoError(t, d.Close())

	// Find the range-key block of the table that has one.
	ls, err := mem.List("db")
	require.NoError(t, err)
	for _, name := range ls {
		if !strings.HasSuffix(name, ".sst") {
			continue
		}
		f, err := mem.Open("db/" + name)
		require.NoError(t, err)
		rd, err := objstorage.NewSimpleReadable(f)
		require.NoError(t, err)
		r, err := sstable.NewReader(t.Context(), rd, sstable.ReaderOptions{})
		require.NoError(t, err)
		l, err := r.Layout()
		require.NoError(t, err)
		if l.RangeKey.Length > 0 {
			failOffset.Store(int64(l.RangeKey.Offset))
			failPath.Store(name)
		}
		require.NoError(t, r.Close())
	}
	require.NotEqual(t, "", failPath.Load().(string))
	

	d, err = Open("db", opts)
	require.NoError(t, err)
	defer d.Close()
	get := func(k string) string {
		v, c, err := d.Get([]byte(k))
		if err != nil {
			return err.Error()
		}
		defer c.Close()
		return string(v)
	}
	require.Equal(t, "1", get("a"))
	require.Equal(t, "2", get("b"))

	cerr := d.Compact(t.Context(), []byte("a"), []byte("z"), false)
	t.Logf("Compact returned %v; injected %d read errors", cerr, injected.Load())
	failPath.Store("") // the faults stop
	// Either the compaction failed (fine) or the data is intact.
	require.Equal(t, "1", get("a"))
	require.Equal(t, "2", get("b"))
}
