package pebble

import (
	"strings"
	"sync/atomic"
	"testing"

	"github.com/cockroachdb/errors"
	"github.com/cockroachdb/pebble/vfs"
	"github.com/cockroachdb/pebble/vfs/errorfs"
	"github.com/stretchr/testify/require"
)

// Demonstration for property C43: when the fsync of a blob file fails at the
// end of a flush, blob.FileWriter.Close called Abort on the Writable whose
// Finish had just failed ("No further calls are allowed after calling
// Finish"); the file-backed Writable has already dropped its file, so the
// process died of a nil-pointer dereference in a background goroutine instead
// of reporting a failed flush. Place this file in the repository root
// (package pebble) and run:
//
//	go test -vet=off -count=1 -run TestVerifBlobWriterAbortAfterFailedFinish .
//
// Before the fix the test binary panics; after it the failed flush is reported
// as a background error and retried (one sync error is injected), Flush
// returns and the data is readable.
func TestVerifBlobWriterAbortAfterFailedFinish(t *testing.T) {
	mem := vfs.NewMem()
	var arm atomic.Bool
	var injected atomic.Int64
	inj := errorfs.InjectorFunc(func(op errorfs.Op) error {
		if arm.Load() && injected.Load() == 0 && (op.Kind == errorfs.OpFileSync || op.Kind == errorfs.OpFileSyncData || op.Kind == errorfs.OpFileSyncTo) && strings.HasSuffix(op.Path, ".blob") {
			injected.Add(1)
			return errors.New("injected sync error")
		}
		return nil
	})
	opts := &Options{FS: errorfs.Wrap(mem, inj), FormatMajorVersion: FormatNewest, DisableAutomaticCompactions: true}
	opts.ValueSeparationPolicy = func() ValueSeparationPolicy {
		return ValueSeparationPolicy{Enabled: true, MinimumSize: 1, MinimumMVCCGarbageSize: 1, MaxBlobReferenceDepth: 5}
	}
	d, err := Open("db", opts)
	require.NoError(t, err)
	defer d.Close()
	require.NoError(t, d.Set([]byte("a"), []byte(strings.Repeat("v", 500)), nil))
	require.NoError(t, d.Set([]byte("b"), []byte(strings.Repeat("w", 500)), nil))
	arm.Store(true)
	ferr := d.Flush()
	arm.Store(false)
	t.Logf("Flush returned %v after %d injected blob sync errors", ferr, injected.Load())
	require.Greater(t, injected.Load(), int64(0))
	v, c, err := d.Get([]byte("a"))
	require.NoError(t, err)
	require.Equal(t, 500, len(v))
	c.Close()
}
