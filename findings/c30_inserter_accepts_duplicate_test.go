package arenaskl

import (
	"testing"

	"github.com/cockroachdb/pebble/internal/base"
	"github.com/stretchr/testify/require"
)

// Demonstration for property C30 ("duplicates report ErrRecordExists"): an
// Inserter whose cached base-level splice is (prev, next) accepted a key equal
// to next's key: findSplice treats "key is not after next" as "the splice
// brackets the key" and, at level 0, never compares for equality, so the
// duplicate internal key was linked in front of the existing one. No
// concurrency is needed. Place in internal/arenaskl and run
//
//	go test -vet=off -count=1 -run TestVerifInserterAcceptsDuplicate ./internal/arenaskl
func TestVerifInserterAcceptsDuplicate(t *testing.T) {
	mk := func(k string) base.InternalKey { return base.MakeInternalKey([]byte(k), 1, base.InternalKeyKindSet) }
	// Whether the cached splice is used at level 0 depends on the random tower
	// heights: before the fix roughly every second trial accepted the duplicate.
	for trial := 0; trial < 64; trial++ {
		l := NewSkiplist(newArena(1<<16), base.DefaultComparer.Compare)
		require.NoError(t, l.Add(mk("c"), nil))
		var ins Inserter
		// Inserting "a" leaves the cached splice (a, c).
		require.NoError(t, ins.Add(l, mk("a"), nil))
		// "c" exists already.
		require.Equal(t, ErrRecordExists, ins.Add(l, mk("c"), nil), "trial %d", trial)
		n := 0
		it := l.NewIter(nil, nil, nil)
		for kv := it.First(); kv != nil; kv = it.Next() {
			n++
		}
		require.Equal(t, 2, n)
	}
}
