package pebble

import (
	"testing"

	"github.com/cockroachdb/pebble/vfs"
	"github.com/stretchr/testify/require"
)

// Demonstration for property C13: an iterator opened with
// OnlyReadGuaranteedDurable leaves the memtables out of its point-key stack
// (finishInitializingIter) but constructRangeKeyIter added every memtable's
// range keys regardless, so the "durable only" view showed range keys that
// exist nowhere but in the memtable and the unsynced WAL: a crash at that
// moment loses them, and the view (point keys as of the last flush, range keys
// as of now) is not a state the DB was ever in. Place in the repository root
// (package pebble) and run
//
//	go test -vet=off -count=1 -run TestVerifDurableOnlyIteratorShowsMemtableRangeKeys .
func TestVerifDurableOnlyIteratorShowsMemtableRangeKeys(t *testing.T) {
	d, err := Open("db", &Options{FS: vfs.NewMem(), FormatMajorVersion: FormatNewest})
	require.NoError(t, err)
	defer d.Close()
	// Durable: one point and one range key, flushed.
	require.NoError(t, d.Set([]byte("a"), []byte("1"), NoSync))
	require.NoError(t, d.RangeKeySet([]byte("a"), []byte("c"), []byte("@1"), []byte("durable"), NoSync))
	require.NoError(t, d.Flush())
	// Not durable: a range key that lives in the memtable only.
	require.NoError(t, d.RangeKeySet([]byte("m"), []byte("z"), []byte("@1"), []byte("volatile"), NoSync))
	for _, kt := range []IterKeyType{IterKeyTypeRangesOnly, IterKeyTypePointsAndRanges} {
		it, err := d.NewIter(&IterOptions{OnlyReadGuaranteedDurable: true, KeyTypes: kt})
		require.NoError(t, err)
		for ok := it.First(); ok; ok = it.Next() {
			if _, hasRange := it.HasPointAndRange(); hasRange {
				for _, rk := range it.RangeKeys() {
					require.Equal(t, "durable", string(rk.Value),
						"durable-only iterator (key types %v) at %q shows a range key that exists only in the memtable", kt, it.Key())
				}
			}
		}
		require.NoError(t, it.Close())
	}
}
