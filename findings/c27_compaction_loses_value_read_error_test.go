package pebble

import (
	"bytes"
	"strings"
	"testing"

	"github.com/cockroachdb/pebble/internal/testkeys"
	"github.com/cockroachdb/pebble/objstorage"
	"github.com/cockroachdb/pebble/sstable"
	"github.com/cockroachdb/pebble/vfs"
	"github.com/stretchr/testify/require"
)

// Demonstration for properties C27 and C43: compact.Iter.iterNext overwrote an
// error already recorded in the compaction iterator with the input iterator's
// (nil) error when the input was exhausted. If the value of the LAST key of a
// compaction's input could not be fetched from its value block (checksum
// mismatch after bit rot, or a read error), saveValue recorded the error and
// substituted an empty value, the following iterNext hit the end of the input
// and wiped the error, and the compaction "succeeded", writing the key with an
// empty value: silent, permanent corruption of a committed value.
//
// Place this file in the repository root (package pebble) and run
//
//	go test -vet=off -count=1 -run TestVerifCompactionLosesValueReadError .
//
// Before the fix: Compact returns nil and Get("a@1") returns an empty value.
// After the fix: Compact returns the checksum error and nothing is rewritten.
func TestVerifCompactionLosesValueReadError(t *testing.T) {
	mem := vfs.NewMem()
	opts := &Options{
		FS:                          mem,
		Comparer:                    testkeys.Comparer,
		FormatMajorVersion:          FormatNewest,
		DisableAutomaticCompactions: true,
		DisableTableStats:           true,
	}
	// The default DataCorruption handler exits the process; report instead.
	opts.EventListener = &EventListener{DataCorruption: func(info DataCorruptionInfo) {
		t.Logf("DataCorruption event: %s: %v", info.Path, info.Details)
	}}
	opts.EnsureDefaults()
	d, err := Open("db", opts)
	require.NoError(t, err)
	val := []byte(strings.Repeat("v", 100))
	// Two versions of one prefix: the value of the older one ("a@1" sorts after
	// "a@2") is stored in a value block. It is the last key of the table.
	require.NoError(t, d.Set([]byte("a@2"), []byte("newer"), nil))
	require.NoError(t, d.Set([]byte("a@1"), val, nil))
	require.NoError(t, d.Flush())
	// A second, overlapping table, so that compacting them rewrites the data
	// (a lone table would merely be moved).
	require.NoError(t, d.Set([]byte("a@2"), []byte("newest"), nil))
	require.NoError(t, d.Flush())
	require.NoError(t, d.Close())

	// Damage one byte inside the value block.
	ls, err := mem.List("db")
	require.NoError(t, err)
	damaged := false
	for _, name := range ls {
		if !strings.HasSuffix(name, ".sst") {
			continue
		}
		f, err := mem.Open("db/" + name)
		require.NoError(t, err)
		rd, err := objstorage.NewSimpleReadable(f)
		require.NoError(t, err)
		r, err := sstable.NewReader(t.Context(), rd, opts.MakeReaderOptions())
		require.NoError(t, err)
		l, err := r.Layout()
		require.NoError(t, err)
		require.NoError(t, r.Close())
		if len(l.ValueBlock) == 0 {
			continue
		}
		off := int64(l.ValueBlock[0].Offset) + 10
		w, err := mem.OpenReadWrite("db/"+name, vfs.WriteCategoryUnspecified)
		require.NoError(t, err)
		_, err = w.WriteAt([]byte{'X'}, off)
		require.NoError(t, err)
		require.NoError(t, w.Close())
		damaged = true
	}
	require.True(t, damaged)

	d, err = Open("db", opts)
	require.NoError(t, err)
	defer d.Close()
	// A direct read reports the damage.
	_, _, gerr := d.Get([]byte("a@1"))
	require.Error(t, gerr)

	cerr := d.Compact(t.Context(), []byte("a"), []byte("z"), false)
	t.Logf("Compact returned %v", cerr)
	v, closer, gerr := d.Get([]byte("a@1"))
	if gerr == nil {
		defer closer.Close()
		// Only the original value may ever be returned without an error.
		require.True(t, bytes.Equal(val, v), "Get(a@1) returned %q without an error after compacting a damaged table (Compact returned %v)", v, cerr)
	}
}
