package pebble

import (
	"bytes"
	"fmt"
	"strings"
	"sync/atomic"
	"testing"

	"github.com/cockroachdb/errors"
	"github.com/cockroachdb/pebble/objstorage"
	"github.com/cockroachdb/pebble/sstable"
	"github.com/cockroachdb/pebble/vfs"
	"github.com/cockroachdb/pebble/vfs/errorfs"
	"github.com/stretchr/testify/require"
)

// Demonstration for property C43: while an excise determines the bounds of
// the table pieces that remain to the left and right of the excised span, a
// failed point-iterator seek (I/O error) is taken for "no such key": the
// remaining piece is dropped from the version and keys outside the excised
// span vanish, although Excise returns nil.
func TestVerifExciseSwallowsPointReadError(t *testing.T) {
	mem := vfs.NewMem()
	var failOffset atomic.Int64
	failOffset.Store(-1)
	var injected atomic.Int64
	dataOffsets := map[int64]bool{}
	inj := errorfs.InjectorFunc(func(op errorfs.Op) error {
		if op.Kind == errorfs.OpFileReadAt && strings.HasSuffix(op.Path, ".sst") && failOffset.Load() >= 0 && dataOffsets[op.Offset] {
			injected.Add(1)
			return errors.New("injected read error")
		}
		return nil
	})
	fs := errorfs.Wrap(mem, inj)
	opts := &Options{FS: fs, DisableAutomaticCompactions: true, FormatMajorVersion: FormatNewest}
	opts.DisableTableStats = true
	opts.Levels[0].BlockSize = 256
	opts.Levels[0].Compression = func() *sstable.CompressionProfile { return sstable.NoCompression }
	d, err := Open("db", opts)
	require.NoError(t, err)
	val := bytes.Repeat([]byte("x"), 100)
	for _, p := range []string{"a", "c", "e"} {
		for i := 0; i < 10; i++ {
			require.NoError(t, d.Set([]byte(fmt.Sprintf("%s%02d", p, i)), val, nil))
		}
	}
	require.NoError(t, d.Flush())
	require.NoError(t, d.Close())

	// Find the last data block of the only table (it holds "e").
	ls, err := mem.List("db")
	require.NoError(t, err)
	var off int64 = -1
	for _, name := range ls {
		if !strings.HasSuffix(name, ".sst") {
			continue
		}
		f, err := mem.Open("db/" + name)
		require.NoError(t, err)
		rd, err := objstorage.NewSimpleReadable(f)
		require.NoError(t, err)
		r, err := sstable.NewReader(t.Context(), rd, sstable.ReaderOptions{})
		require.NoError(t, err)
		l, err := r.Layout()
		require.NoError(t, err)
		require.GreaterOrEqual(t, len(l.Data), 3)
		// the last data block holds only "e" keys; so does the one before it
		off = int64(l.Data[len(l.Data)-1].Offset)
		for _, b := range l.Data {
			dataOffsets[int64(b.Offset)] = true
		}
		require.NoError(t, r.Close())
	}
	require.GreaterOrEqual(t, off, int64(0))

	d, err = Open("db", opts)
	require.NoError(t, err)
	defer d.Close()
	failOffset.Store(off)
	xerr := d.Excise(t.Context(), KeyRange{Start: []byte("b"), End: []byte("d")})
	t.Logf("Excise returned %v; injected %d read errors", xerr, injected.Load())
	failOffset.Store(-1) // the faults stop
	// "e" lies outside the excised span: it must still be there.
	v, c, err := d.Get([]byte("e05"))
	require.NoError(t, err)
	require.Equal(t, val, v)
	c.Close()
	v, c, err = d.Get([]byte("a05"))
	require.NoError(t, err)
	require.Equal(t, val, v)
	c.Close()
}
