#!/usr/bin/env python3
"""Validates MANIFEST.json and every claimed check's evidence file against the
schemas in /root/.vp (run with python3-vt, which has jsonschema):

  python3-vt validate_evidence.py

Exit 0 when MANIFEST.json is valid, every check listed in it has a committed-able
evidence file that validates, whose property_id/level match the claim, and no
property is both claimed and listed as not applicable."""
import json, os, sys
import jsonschema

V = os.path.dirname(os.path.abspath(__file__))
S = "/root/.vp"
bad = 0


def err(msg):
    global bad
    bad += 1
    print("INVALID: " + msg)


man = json.load(open(os.path.join(V, "MANIFEST.json")))
try:
    jsonschema.validate(man, json.load(open(os.path.join(S, "MANIFEST.schema.json"))))
except jsonschema.ValidationError as e:
    err("MANIFEST.json: " + e.message)
es = json.load(open(os.path.join(S, "EVIDENCE.schema.json")))
props = [json.loads(l)["id"] for l in open(os.path.join(V, "properties.jsonl")) if l.strip()]
claimed = [c["property_id"] for c in man["checks"]]
na = [n["property_id"] for n in man.get("not_applicable", [])]
for p in props:
    if (p in claimed) == (p in na):
        err("%s must be exactly one of claimed / not_applicable" % p)
for c in man["checks"]:
    pid = c["property_id"]
    path = os.path.join(V, c["evidence_file"]) if not os.path.isabs(c["evidence_file"]) else c["evidence_file"]
    if not os.path.exists(path):
        err("%s: no evidence file %s" % (pid, path))
        continue
    ev = json.load(open(path))
    try:
        jsonschema.validate(ev, es)
    except jsonschema.ValidationError as e:
        err("%s: %s: %s" % (pid, "/".join(str(x) for x in e.absolute_path), e.message[:200]))
        continue
    if ev["property_id"] != pid:
        err("%s: evidence names %s" % (pid, ev["property_id"]))
    if ev["level"] != c["level_claimed"]["category"]:
        err("%s: evidence level %s, claimed %s" % (pid, ev["level"], c["level_claimed"]["category"]))
    if ev.get("violations"):
        err("%s: evidence records %d violations" % (pid, ev["violations"]))
    cov = ev["coverage"]
    print("ok %s tier=%s seed=%d evaluations=%d distinct_nontrivial=%d wall=%.0fs" % (
        pid, ev["tier"], ev["seed"], cov.get("evaluations", -1), cov.get("distinct_nontrivial", -1), ev["wall_s"]))
print("%d problems" % bad)
sys.exit(1 if bad else 0)
