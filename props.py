"""Property table: which engine/profile decides each property, budgets per tier."""

def _p(engine, profile, level, rule, quick=(60, 400), thorough=(1500, 40000), **kw):
    d = {"engine": engine, "profile": profile, "level": level, "rule": rule,
         "quick": {"budget_s": quick[0], "max_runs": quick[1], "run_timeout_s": 300},
         "thorough": {"budget_s": thorough[0], "max_runs": thorough[1], "run_timeout_s": 900}}
    d.update(kw)
    return d

NT_DB = ("one case = one seeded whole-DB run (swarm configuration + operation plan + schedule spec, all derived from the seed); "
         "distinct = distinct (plan hash, schedule hash) pair; non-trivial = at least one flush happened and more than 5 groups committed "
         "while background tasks were interleaved with the client by the seeded scheduler")

PROPS = {
    "C01": _p("dbsim", "latest", "exploration", NT_DB,
              assumptions=["simulated disk has MemFS durability semantics", "reference model kvmodel is correct (validated fault-free on thousands of seeds)"]),
}

META = {
    "C01": {"text": "Seeded search: each run drives a real pebble.DB (rewritten so that the seeded baton scheduler decides every interleaving of client, flush, compaction, WAL and deletion goroutines) through a generated single-client history under a swarm configuration on the simulated disk; every Get of touched keys and periodic full scans with fresh iterators are compared with an independent reference model. Exploration is the right level: the quantifier (all histories x configurations x background timings) is unbounded, so the check samples it with many short, diverse, exactly replayable runs.",
            "note": "Trusted: kvmodel (trivial fold over the op log), simfs semantics (MemFS durability), the rewriter's mechanical transformations; code inside third-party modules runs atomically between yield points."},
}
